"""Reference semantics of the documented wildcard language (DESIGN.md section 4).

Written from the documentation and the property statements, independently of wcmatch: a
set-of-end-positions matcher over pattern ASTs, no regular expressions, no pattern-string parsing.

AST (tuples):
  ('lit', c)  ('elit', c)  ('star',)  ('q',)
  ('set', neg, items[, negch])   items: ('c', ch) | ('r', lo, hi) | ('p', posix-name)
  ('grp', kind, alts)            kind in ?*+@!   alts: tuple of token tuples
  path mode: ('sep', text)  ('gstar',)  ('gstarlong',)

Results are three valued: True = MUST match, False = MUST NOT match, None = DON'T CARE.

Defect-model switches (`quirks`) re-run the same model with exactly one documented deviation of the
implementation turned on; they are used *only* to attribute an observed disagreement to a known
finding (wcverif.findings), never to decide what is expected.
"""

POSIX = {
    'alnum': frozenset('abcdefghijklmnopqrstuvwxyzABCDEFGHIJKLMNOPQRSTUVWXYZ0123456789'),
    'alpha': frozenset('abcdefghijklmnopqrstuvwxyzABCDEFGHIJKLMNOPQRSTUVWXYZ'),
    'ascii': frozenset(map(chr, range(0x80))),
    'blank': frozenset(' \t'),
    'cntrl': frozenset(map(chr, list(range(0x20)) + [0x7f])),
    'digit': frozenset('0123456789'),
    'graph': frozenset(map(chr, range(0x21, 0x7f))),
    'lower': frozenset('abcdefghijklmnopqrstuvwxyz'),
    'print': frozenset(map(chr, range(0x20, 0x7f))),
    'punct': frozenset('!"#$%&\'()*+,-./:;<=>?@[\\]^_`{|}~'),
    'space': frozenset(' \t\r\n\v\f'),
    'upper': frozenset('ABCDEFGHIJKLMNOPQRSTUVWXYZ'),
    'word': frozenset('abcdefghijklmnopqrstuvwxyzABCDEFGHIJKLMNOPQRSTUVWXYZ0123456789_'),
    'xdigit': frozenset('0123456789abcdefABCDEF'),
}
POSIX_NAMES = sorted(POSIX)

LITS = ('lit', 'elit')


def _swap(c):
    lo, up = c.lower(), c.upper()
    # only ASCII letters take part in case folding here (the property speaks of ASCII case)
    if len(lo) == 1 and len(up) == 1 and c.isascii():
        return lo, up
    return c, c


def set_has(items, ch, icase):
    def one(c):
        for it in items:
            k = it[0]
            if k == 'c':
                if it[1] == c:
                    return True
            elif k == 'r':
                if it[1] <= c <= it[2]:
                    return True
            elif c in POSIX[it[1]]:
                return True
        return False
    if one(ch):
        return True
    if icase:
        lo, up = _swap(ch)
        return one(lo) or one(up)
    return False


def lit_eq(pc, c, icase):
    if pc == c:
        return True
    if icase and pc.isascii() and c.isascii():
        return pc.lower() == c.lower()
    return False


# ---------------------------------------------------------------------------------------------
def annotate(toks, guarded=True):
    """Mark tokens that stand *syntactically* at a name/segment start (used by defect models only).

    The first token of the sequence, and recursively the first token of every alternative of a
    group standing there, carry the marker 'G' as last element.
    """

    out = []
    g = guarded
    for t in toks:
        k = t[0]
        if k == 'grp':
            alts = tuple(annotate(a, g) for a in t[2])
            nt = ('grp', t[1], alts) + (('G',) if g else ())
        elif k in LITS:
            # a written dot standing syntactically at a segment start carries the NODOTDIR guard
            nt = t + ('G',) if (g and t[1] == '.') else t
        else:
            nt = t + (('G',) if g else ())
        out.append(nt)
        g = False
    return tuple(out)


def is_g(t):
    return t[-1] == 'G'


def _alt_opens_with_dot(alt):
    if not alt:
        return False
    t = alt[0]
    if t[0] in LITS:
        return t[1] == '.'
    if t[0] == 'grp':
        return any(_alt_opens_with_dot(a) for a in t[2])
    return False


class Sem:
    """Segment (or whole-name) matcher.

    dot     : DOTMATCH/DOTGLOB in force -> no hidden rule.
    strict  : at a hidden start nothing but a written '.' (possibly inside an entered group) may stand.
              (lenient otherwise: wildcards may match *empty* there and a written dot then consumes it)
    nosep   : characters no wildcard construct may consume (path mode: '/').
    quirks  : defect-model switches, tokens must then be annotate()d:
        'A'  the hidden-dot guard belongs to the syntactically first token only (KF-DOTGUARD-POSITIONAL)
        'B'  a syntactically first token re-applies its guard wherever it is tried (KF-DOTGUARD-IN-REPEAT)
    fn_star : with 'A', a guarded star refuses even to stand (match empty) at a hidden start (fnmatch mode regex).
    """

    def __init__(self, s, dot, icase=False, strict=False, nosep='', quirks=frozenset(), fn_star=False,
                 pathseg=False, nodotdir=False):
        self.s = s
        self.n = len(s)
        self.dot = dot
        self.icase = icase
        self.strict = strict
        self.nosep = nosep
        self.quirks = quirks
        self.qa = 'A' in quirks
        self.qb = 'B' in quirks
        self.fn_star = fn_star
        self.pathseg = pathseg
        self.nodotdir = nodotdir
        self.memo = {}

    def hidden_at(self, i, t):
        s = self.s
        if self.qb and i > 0 and i < self.n and s[i] == '.' and is_g(t):
            # guard re-applied inside a repeat
            if not self.dot:
                return True
            if self.pathseg and s[i:] in ('.', '..'):
                return True
        if i != 0 or not self.n or s[0] != '.':
            return False
        if self.qa:
            # defect model A: only syntactically first tokens carry a guard; in path mode that guard also refuses to
            # start a `.`/`..` segment whatever DOTGLOB says
            if not is_g(t):
                return False
            if 'D' in self.quirks and t[0] == 'grp' and t[1] == '!' and any(_alt_opens_with_dot(a) for a in t[2]):
                # defect model D: a leading `!(...)` that lists a written dot is left unguarded (DOTGLOB, no NODOTDIR)
                return False
            if self.pathseg and s in ('.', '..'):
                return True
        return not self.dot

    def ends(self, toks, i):
        """Set of j such that toks can consume s[i:j]."""
        key = (toks, i)
        r = self.memo.get(key)
        if r is not None:
            return r
        self.memo[key] = frozenset()  # guards against re-entrance on the same key
        if not toks:
            r = frozenset((i,))
        else:
            t = toks[0]
            if t[0] == 'grp' and t[1] == '!':
                r = frozenset(self.neg_ends(t, i, toks[1:]))
            else:
                acc = set()
                for j in self.tok_ends(t, i):
                    acc |= self.ends(toks[1:], j)
                r = frozenset(acc)
        self.memo[key] = r
        return r

    def neg_ends(self, t, i, rest):
        s, n = self.s, self.n
        alts = t[2]
        hid = self.hidden_at(i, t)
        acc = set()
        if 'NL' in self.quirks and n and s[-1] == '\n' and i < n:
            # defect model: `$` inside the look-ahead also matches before a final newline
            sub = Sem(s[:-1], self.dot, self.icase, self.strict, self.nosep, self.quirks - {'NL'}, self.fn_star,
                      self.pathseg, self.nodotdir)
            for k in sub.tok_ends(('grp', '@', alts) + (('G',) if is_g(t) else ()), i):
                if sub.n in sub.ends(rest, k):
                    return acc
        for j in range(i, n + 1):
            if j > i and s[j - 1] in self.nosep:
                break
            if hid:
                if j > i:
                    break  # may not consume the hidden dot
                if self.strict or (self.qa and (self.fn_star or (self.pathseg and s in ('.', '..')))):
                    continue  # may not even stand there
            if not self.alt_full(alts, i, j):
                acc |= self.ends(rest, j)
        return acc

    def tok_ends(self, t, i):
        s, n = self.s, self.n
        k = t[0]
        if k in LITS:
            if self.qb and self.nodotdir and self.pathseg and i > 0 and len(t) == 3 and t[2] == 'G' and s[i:] in ('.', '..'):
                # defect model B: the NODOTDIR guard of a syntactically first written dot is re-applied in a repeat
                return ()
            if i < n and lit_eq(t[1], s[i], self.icase):
                return (i + 1,)
            return ()
        hid = self.hidden_at(i, t)
        if k == 'q':
            if hid:
                return ()
            if i < n and s[i] not in self.nosep:
                return (i + 1,)
            return ()
        if k == 'set':
            if hid:
                return ()
            if i < n and s[i] not in self.nosep:
                if set_has(t[2], s[i], self.icase) != t[1]:
                    return (i + 1,)
            return ()
        if k == 'star':
            if hid:
                if self.strict or (self.qa and self.fn_star) or (self.qb and i > 0 and self.fn_star):
                    return ()
                if self.qa and self.pathseg and s in ('.', '..'):
                    return ()   # the ./.. guard is a look-ahead in front of the star: it cannot even match empty there
                return (i,)
            out = [i]
            j = i
            while j < n and s[j] not in self.nosep:
                j += 1
                out.append(j)
            return out
        if k == 'grp':
            kind, alts = t[1], t[2]
            one = set()
            for a in alts:
                one |= self.ends(a, i)
            if kind == '@':
                return one
            strict_here = hid and self.strict
            if strict_here:
                # a group may not match empty while standing at a hidden start
                one.discard(i)
            if kind == '?':
                return one if strict_here else (one | {i})
            seen = set(one)
            frontier = set(one)
            while frontier:
                nxt = set()
                for j in frontier:
                    for a in alts:
                        for e in self.ends(a, j):
                            if e not in seen:
                                seen.add(e)
                                nxt.add(e)
                frontier = nxt
            if strict_here:
                seen.discard(i)
            elif kind == '*':
                seen.add(i)
            return seen
        raise ValueError(f'unknown token {t!r}')

    def alt_full(self, alts, i, j):
        """Does some alternative consume exactly s[i:j]? (evaluated in place, so that position-dependent rules see
        the real text that follows)"""
        for a in alts:
            if j in self.ends(a, i):
                return True
        return False

    def full(self, toks):
        return self.n in self.ends(toks, 0)


def seg_match3(toks, s, dot, icase=False, nosep=''):
    """Three valued match of a token sequence against a whole name/segment."""
    if not Sem(s, dot, icase, False, nosep).full(toks):
        return False
    if dot or not s.startswith('.'):
        return True
    return True if Sem(s, dot, icase, True, nosep).full(toks) else None


def seg_quirk(toks, s, dot, icase=False, nosep='', quirks=frozenset('A'), fn_star=False, pathseg=False, nodotdir=False):
    """Two valued answer of a defect model (lenient reading + the switches)."""
    return Sem(s, dot, icase, False, nosep, frozenset(quirks), fn_star, pathseg, nodotdir).full(annotate(toks))


# ---------------------------------------------------------------------------------------------
# Path mode

def split_segments(toks):
    """Cut a flat token list at separators -> (absolute, segments, trailing separator)."""
    segs = [[]]
    for t in toks:
        if t[0] == 'sep':
            segs.append([])
        else:
            segs[-1].append(t)
    is_abs = bool(toks) and toks[0][0] == 'sep'
    trailing = len(segs) > 1 and not segs[-1]
    return is_abs, [tuple(s) for s in segs if s], trailing


def has_sep(toks):
    return any(t[0] == 'sep' for t in toks)


def norm_seg(seg):
    """A `**`/`***` that is not a whole segment (or whose flag is off) is one star."""
    return tuple(('star',) if t[0] in ('gstar', 'gstarlong') else t for t in seg)


def literal_text(seg):
    if all(t[0] in LITS for t in seg):
        return ''.join(t[1] for t in seg)
    return None


def nullable(toks):
    for t in toks:
        if t[0] in ('lit', 'elit', 'q', 'set'):
            return False
        if t[0] == 'grp':
            if t[1] in '?*!':
                continue
            if not any(nullable(a) for a in t[2]):
                return False
    return True


def seg_nullable(seg):
    """May this segment pattern stand for no path segment at all (DON'T-CARE zone of path mode)?  A segment that opens with
    `!(...)` may not: like `*`, 'anything but ...' needs something to be (C02: every path segment is matched by exactly one
    segment pattern)."""
    seg = norm_seg(seg)
    if seg and seg[0][0] == 'grp' and seg[0][1] == '!':
        return False
    return nullable(seg)


def seg3(seg, name, dot, icase, nodotdir, quirks=None, pathseg=True):
    """Three-valued match of one pattern segment against one non-empty path segment."""
    seg = norm_seg(seg)
    if quirks and (name not in ('.', '..') or 'A' in quirks):
        if name in ('.', '..') and nodotdir and seg and seg[0][0] in LITS and seg[0][1] == '.':
            lt = literal_text(seg)
            return lt is not None and lit_str_eq(lt, name, icase)
        return seg_quirk(seg, name, dot, icase, '/', quirks, False, True, nodotdir)
    if name in ('.', '..'):
        lt = literal_text(seg)
        if nodotdir:
            return lt is not None and lit_str_eq(lt, name, icase)
        if lt is not None:
            return lit_str_eq(lt, name, icase)
        if seg and seg[0][0] in LITS and seg[0][1] == '.':
            return Sem(name, True, icase, False, '/').full(seg)
        # a wildcard-bearing segment not starting with a written dot: MUST NOT unless a written dot
        # inside a group (or behind an empty-matching wildcard) could consume it -> DON'T CARE
        return None if Sem(name, False, icase, False, '/').full(seg) else False
    return seg_match3(seg, name, dot, icase, '/')


def lit_str_eq(a, b, icase):
    if a == b:
        return True
    return icase and a.lower() == b.lower() if (a.isascii() and b.isascii()) else False


class PathSpec:
    """Flags of a path-mode match (plain booleans, no wcmatch constants)."""

    def __init__(self, dot=False, icase=False, globstar=False, globstarlong=False, matchbase=False,
                 nodotdir=False, nodir=False, extmatchbase=False):
        self.dot = dot
        self.icase = icase
        self.globstarlong = globstarlong
        self.globstar = globstar or globstarlong
        self.matchbase = matchbase
        self.extmatchbase = extmatchbase
        self.nodotdir = nodotdir
        self.nodir = nodir


def seg_is_gstar(seg, ps):
    if len(seg) == 1:
        if seg[0][0] == 'gstar':
            return ps.globstar
        if seg[0][0] == 'gstarlong':
            # `***` without GLOBSTARLONG but with GLOBSTAR: documented as plain `*`-like; don't decide here
            return ps.globstarlong
    return False


def path_match3(toks, path, ps, quirks=None):
    """Three-valued match of a path-mode pattern against a path string (no file system)."""
    if not path:
        return False
    p_abs, segs, p_trail = split_segments(toks)
    n_abs = path.startswith('/')
    parts = [x for x in path.split('/') if x]
    implicit = False
    if (ps.matchbase and not has_sep(toks)) or (ps.extmatchbase and not p_abs):
        segs = [(('gstar',),)] + segs
        implicit = True
    if p_abs != n_abs:
        if n_abs and not p_abs and segs and (implicit or seg_is_gstar(segs[0], ps)):
            return None
        if n_abs and not p_abs and segs and seg_nullable(segs[0]):
            # nullable first segment pattern against the empty segment in front of a leading separator
            return None
        return False
    if ps.nodir and (path.endswith('/') or (parts and parts[-1] in ('.', '..'))):
        return False

    def is_gs(i):
        return (implicit and i == 0) or seg_is_gstar(segs[i], ps)

    last_gs = bool(segs) and is_gs(len(segs) - 1)
    if p_trail and not last_gs and not path.endswith('/'):
        return False
    mbgs = bool(quirks) and 'MBGS' in quirks
    segq = frozenset(q for q in (quirks or ()) if q in ('A', 'B', 'D', 'NL')) or None
    nseg, nparts = len(segs), len(parts)

    def run(may):
        memo = {}

        def go(i, j):
            key = (i, j)
            if key in memo:
                return memo[key]
            memo[key] = r = _go(i, j)
            return r

        def _go(i, j):
            if i == nseg:
                return j == nparts
            seg = segs[i]
            if is_gs(i):
                k = j
                while True:
                    if go(i + 1, k):
                        if i == nseg - 1 and i > 0 and k == j and not path.endswith('/') and not (implicit and i == 1):
                            # final, non-first globstar matching zero segments, path written without '/'
                            if may:
                                return True
                        else:
                            return True
                    if k < nparts:
                        nm = parts[k]
                        first_unguarded = mbgs and implicit and i == 1 and k == j and j > 0
                        if not first_unguarded:
                            if nm in ('.', '..') or (not ps.dot and nm.startswith('.')):
                                return False
                        k += 1
                    else:
                        return False
            if may and seg_nullable(seg) and go(i + 1, j):
                return True
            if j >= nparts:
                return False
            r = seg3(seg, parts[j], ps.dot, ps.icase, ps.nodotdir, segq)
            if r is None:
                r = may
            return bool(r) and go(i + 1, j + 1)

        return go(0, 0)

    if quirks:
        # defect models are three-valued too: inside a DON'T-CARE zone either answer is explained
        a, b = run(True), run(False)
        return a if a == b else None
    if not run(True):
        return False
    return True if run(False) else None
