"""Directory-tree specs, materialisation under a scratch root, snapshots and the reference walker."""
import os
import shutil

from . import env
from . import refmodel as R

NAMES = ['a', 'b', 'ab', '.h', '.a', 'A', 'c.d', 'B', 'aB']
# 'thrufile' / 'longname': links whose target cannot even be stat()ed (ENOTDIR through a regular file, ENAMETOOLONG): the entry
# exists (lexists) and is not a directory
LINK_KINDS = ['file', 'dir', 'dangling', 'parent', 'self', 'sibling', 'hidden', 'dot', 'thrufile', 'longname']


def gen_spec(rng, max_entries=14, maxdepth=3, names=NAMES, p_dir=0.38, p_link=0.25, link_kinds=LINK_KINDS):
    """A tree spec: list of (relative path, kind, link target); kind in f/d/l. Parents precede children."""
    spec = []
    budget = [rng.randint(max(3, max_entries // 2), max_entries)]

    def build(rel, depth):
        k = rng.randint(1, 4) if depth else rng.randint(2, 5)
        for nm in rng.sample(names, min(k, len(names))):
            if budget[0] <= 0:
                return
            budget[0] -= 1
            p = nm if not rel else rel + '/' + nm
            r = rng.random()
            if r < p_dir and depth < maxdepth:
                spec.append((p, 'd', None))
                build(p, depth + 1)
            elif r < 1 - p_link:
                spec.append((p, 'f', None))
            else:
                kind = rng.choice(link_kinds)
                if kind == 'file':
                    tgt = rng.choice(['a', 'b', 'c.d'])
                elif kind == 'dir':
                    tgt = rng.choice(['a', 'b', 'ab', 'A'])
                elif kind == 'dangling':
                    tgt = 'nowhere'
                elif kind == 'parent':
                    tgt = '..'
                elif kind == 'self':
                    tgt = nm
                elif kind == 'hidden':
                    tgt = rng.choice(['.h', '.a'])
                elif kind == 'dot':
                    tgt = '.'
                elif kind == 'thrufile':
                    tgt = rng.choice(['a', 'b', 'c.d', 'A']) + '/x'
                elif kind == 'longname':
                    tgt = 'n' * 300
                else:
                    tgt = rng.choice(['../a', '../b', '../ab', '../A'])
                spec.append((p, 'l', tgt))

    build('', 0)
    return spec


def materialise(spec, root):
    for p, kind, tgt in spec:
        full = os.path.join(root, p)
        if kind == 'd':
            os.makedirs(full, exist_ok=True)
        elif kind == 'f':
            os.makedirs(os.path.dirname(full), exist_ok=True)
            open(full, 'w').close()
        else:
            os.makedirs(os.path.dirname(full), exist_ok=True)
            os.symlink(tgt, full)


class Tree:
    """A materialised tree; removes itself on close()."""

    def __init__(self, spec, tag='t-'):
        self.spec = spec
        # the root sits four private levels below the shared scratch base, so that patterns which climb with `..`
        # (also through wildcards, see KF-DOTGUARD-POSITIONAL) never list a directory other processes write to
        self.base = env.mkscratch(tag)
        self.root = os.path.join(self.base, 'w', 'x', 'y', 'root')
        os.makedirs(self.root)
        try:
            materialise(spec, self.root)
            self.snap = snapshot(self.root)
        except BaseException:
            self.close()
            raise

    def close(self):
        shutil.rmtree(self.base, ignore_errors=True)

    def __enter__(self):
        return self

    def __exit__(self, *a):
        self.close()

    # ----- derived facts ---------------------------------------------------------------------
    @property
    def entries(self):
        return self.snap

    def lexical(self):
        """Every entry reachable without going through a symlink (relative paths)."""
        return sorted(self.snap)

    def has_dir_cycle(self):
        """Following symlinked directories can go on for ever: the graph real directory -> real directory of an entry
        (links resolved) has a cycle, or a link leaves the tree."""
        root = os.path.realpath(self.root)
        color = {}
        bad = [False]

        def visit(d):
            if bad[0]:
                return
            color[d] = 1
            try:
                with os.scandir(d) as it:
                    ents = list(it)
            except OSError:
                ents = []
            for e in ents:
                try:
                    if not e.is_dir():
                        continue
                    t = os.path.realpath(e.path)
                except OSError:
                    if e.is_symlink():
                        bad[0] = True
                    continue
                if t != root and not t.startswith(root + '/'):
                    if e.is_symlink():
                        bad[0] = True
                    continue
                c = color.get(t)
                if c == 1:
                    bad[0] = True
                elif c is None:
                    visit(t)
            color[d] = 2

        visit(root)
        return bad[0]

    def has_eloop_entry(self):
        return any(e['isdir'] is None for e in self.snap.values())

    def candidates(self, maxdepth=4, through_links=True):
        """Lexical paths to every entry, also through symlinked directories (bounded depth)."""
        out = []
        seen = set()

        def walk(rel, depth):
            full = os.path.join(self.root, rel) if rel else self.root
            try:
                with os.scandir(full) as it:
                    ents = sorted(it, key=lambda e: e.name)
            except OSError:
                return
            for e in ents:
                p = e.name if not rel else rel + '/' + e.name
                if p in seen:
                    continue
                seen.add(p)
                out.append(p)
                try:
                    isdir = e.is_dir()
                except OSError:
                    isdir = False
                if isdir and depth < maxdepth and (through_links or not e.is_symlink()):
                    walk(p, depth + 1)

        walk('', 1)
        return out


def snapshot(root):
    """relpath -> {kind, link, target, isdir (following links; None if it raises), exists}; no symlink is traversed."""
    snap = {}

    def scan(rel):
        full = os.path.join(root, rel) if rel else root
        with os.scandir(full) as it:
            for e in it:
                p = e.name if not rel else rel + '/' + e.name
                link = e.is_symlink()
                try:
                    isdir = e.is_dir()
                except OSError:
                    isdir = None
                snap[p] = {
                    'link': link, 'target': os.readlink(os.path.join(full, e.name)) if link else None,
                    'isdir': isdir, 'exists': os.path.exists(os.path.join(full, e.name)),
                }
                if isdir and not link:
                    scan(p)

    scan('')
    return snap


# ---------------------------------------------------------------------------------------------
class Walker:
    """Reference walker: interprets a path-mode AST segment by segment against the real directory contents.

    glob() returns {path: True (MUST be returned) | None (MAY be returned)}; anything else MUST NOT be returned.
    `listed` collects the directories an interpretation of the pattern has a reason to list.
    """

    def __init__(self, root, dot=False, icase=False, globstar=False, globstarlong=False, follow=False,
                 scandotdir=False, matchbase=False, nodir=False, mark=False, extmatchbase=False, maxdepth=26, nodotdir=False,
                 strict_links=False):
        self.root = root
        self.dot = dot
        self.icase = icase
        self.globstarlong = globstarlong
        self.globstar = globstar or globstarlong
        self.follow_flag = follow
        self.follow = follow and not globstarlong
        self.scandotdir = scandotdir
        self.nodotdir = (not scandotdir) or nodotdir
        self.matchbase = matchbase
        self.extmatchbase = extmatchbase
        self.nodir = nodir
        self.mark = mark
        self.maxdepth = maxdepth
        self.listed = set()
        self.ls_calls = 0
        self.strict_links = strict_links
        self._cache = {}

    def ls(self, rel):
        self.listed.add(rel)
        self.ls_calls += 1
        if rel in self._cache:
            return self._cache[rel]
        full = os.path.join(self.root, rel) if rel else self.root
        out = []
        try:
            with os.scandir(full) as it:
                for e in it:
                    try:
                        isdir = e.is_dir()
                    except OSError:
                        isdir = False      # exists but cannot be resolved (symlink loop): an entry that is not a directory
                    out.append((e.name, isdir, e.is_symlink()))
        except OSError:
            pass
        out.sort()
        self._cache[rel] = out
        return out

    def isdir(self, rel):
        return os.path.isdir(os.path.join(self.root, rel) if rel else self.root)

    def lexists(self, rel):
        return os.path.lexists(os.path.join(self.root, rel))

    def glob(self, toks):
        p_abs, segs, trail = R.split_segments(toks)
        if p_abs:
            raise ValueError('absolute patterns are handled by the caller')
        implicit = False
        implicit_long = False
        if (self.matchbase and not R.has_sep(toks)) or self.extmatchbase:
            segs = [(('gstar',),)] + segs
            implicit = True
            implicit_long = self.globstarlong and self.follow_flag
        res = {}

        def add(path, cert, isdir):
            if self.nodir and isdir:
                return
            if res.get(path) is not True:
                res[path] = True if cert else None

        def is_gs(i):
            s = segs[i]
            if implicit and i == 0:
                return True, implicit_long
            if len(s) == 1 and s[0][0] == 'gstar' and self.globstar:
                return True, False
            if len(s) == 1 and s[0][0] == 'gstarlong' and self.globstarlong:
                return True, True
            return False, False

        nseg = len(segs)

        def spell(path, isdir):
            return path

        def go(i, cur, cert, depth):
            if depth > self.maxdepth:
                return
            last = i == nseg - 1
            gs, long_ = is_gs(i)
            seg = segs[i]
            if gs:
                # merge directly following globstars (they are one)
                j = i
                while j + 1 < nseg and is_gs(j + 1)[0]:
                    j += 1
                    long_ = long_ or is_gs(j)[1]
                last_g = j == nseg - 1
                walk_gs(j, cur, cert, depth, long_, last_g, first=True)
                return
            lt = R.literal_text(R.norm_seg(seg))
            if lt is not None and not self.icase:
                child = lt if not cur else cur + '/' + lt
                # an implementation may list the parent to look a literal name up
                self.listed.add(cur)
                self.ls_calls += 1
                if not self.lexists(child):
                    return
                d = self.isdir(child)
                if last:
                    if trail:
                        if d:
                            add(child, cert, True)
                    else:
                        add(child, cert, d)
                elif d:
                    go(i + 1, child, cert, depth + 1)
                return
            names = [(n, d) for n, d, _l in self.ls(cur)]
            if self.scandotdir or lt in ('.', '..'):
                names += [('.', True), ('..', True)]
            for name, isdir in names:
                if isdir is None:
                    continue
                r = R.seg3(seg, name, self.dot, self.icase, self.nodotdir if name in ('.', '..') else False)
                if r is False:
                    continue
                c2 = cert and (r is True)
                child = name if not cur else cur + '/' + name
                if last:
                    if trail:
                        if isdir:
                            add(child, c2, True)
                    else:
                        add(child, c2, isdir)
                elif isdir:
                    go(i + 1, child, c2, depth + 1)

        def walk_gs(i, cur, cert, depth, long_, last, first):
            """Inside globstar segment i, standing in directory cur (already consumed)."""
            if depth > self.maxdepth:
                return
            if last:
                if first and cur != '':
                    add(cur, cert, True)     # zero segments: the directory itself (spelled with a separator by glob)
            else:
                go(i + 1, cur, cert, depth)
            for name, isdir, islink in self.ls(cur):
                if name.startswith('.') and not self.dot:
                    continue
                if isdir is None:
                    continue
                child = name if not cur else cur + '/' + name
                if last and (not trail or isdir):
                    add(child, cert, isdir)
                if isdir and (not islink or self.follow or long_):
                    walk_gs(i, child, cert, depth + 1, long_, last, first=False)
                elif isdir and not last and not self.strict_links:
                    # a symlinked directory matched by the last position of `**`, with written segments following: Bash
                    # continues through it, wcmatch does not; the property text does not settle it -> MAY
                    go(i + 1, child, False, depth + 1)

        if segs:
            go(0, '', True, 0)
        return res


def norm_result(p):
    """Compare glob results ignoring a trailing separator."""
    return p[:-1] if len(p) > 1 and p.endswith('/') else p
