"""Generators: pattern ASTs, an injective-on-meaning serialiser, name/path universes."""
import itertools

from .refmodel import LITS, POSIX, POSIX_NAMES, set_has

# Characters that are (or may be, under some flag) magic outside a bracket expression.
META = frozenset('*?[]\\()|!-{}~+@,')
SET_ESC = frozenset(']\\-^![,{}|')


def ser_lit(c, noescape=()):
    if c in META and c not in noescape:
        return '\\' + c
    return c


def ser_set(t):
    neg, items = t[1], t[2]
    negch = t[3] if len(t) > 3 and t[3] in ('!', '^') else '!'
    out = ['[']
    if neg:
        out.append(negch)
    for it in items:
        if it[0] == 'c':
            c = it[1]
            out.append('\\' + c if c in SET_ESC else c)
        elif it[0] == 'r':
            lo, hi = it[1], it[2]
            out.append(('\\' + lo if lo in SET_ESC else lo) + '-' + ('\\' + hi if hi in SET_ESC else hi))
        else:
            out.append('[:' + it[1] + ':]')
    out.append(']')
    return ''.join(out)


def ser(toks, noescape=()):
    """Serialise an AST to pattern text. Never writes two adjacent stars for two `star` tokens'
    worth of meaning unless the AST says so; callers keep ASTs free of adjacent star/gstar tokens."""
    out = []
    for t in toks:
        k = t[0]
        if k == 'lit':
            out.append(ser_lit(t[1], noescape))
        elif k == 'elit':
            out.append('\\' + t[1])
        elif k == 'star':
            out.append('*')
        elif k == 'q':
            out.append('?')
        elif k == 'set':
            out.append(ser_set(t))
        elif k == 'grp':
            out.append(t[1] + '(' + '|'.join(ser(a, noescape) for a in t[2]) + ')')
        elif k == 'sep':
            out.append(t[1] if len(t) > 1 else '/')
        elif k == 'gstar':
            out.append('**')
        elif k == 'gstarlong':
            out.append('***')
        else:
            raise ValueError(k)
    return ''.join(out)


STARLIKE = ('star', 'gstar', 'gstarlong')


def ambiguous_adjacency(toks):
    """True if serialising would glue star-like tokens together (`*` `*`, `*` `*(`...)."""
    prev = None
    for t in toks:
        k = t[0]
        starts_star = k in STARLIKE
        if prev in STARLIKE and starts_star:
            return True
        if k == 'grp':
            for a in t[2]:
                if ambiguous_adjacency(a):
                    return True
        prev = k
    return False


def has_neg(toks):
    for t in toks:
        if t[0] == 'grp':
            if t[1] == '!':
                return True
            if any(has_neg(a) for a in t[2]):
                return True
    return False


def count_groups(toks):
    n = 0
    for t in toks:
        if t[0] == 'grp':
            n += 1 + sum(count_groups(a) for a in t[2])
    return n


def in_fragment(toks):
    """C01's fragment for `!()`: top level only, alternatives negation-free, followed only by literals."""
    for idx, t in enumerate(toks):
        if t[0] == 'grp':
            if t[1] == '!':
                if any(has_neg(a) for a in t[2]):
                    return False
                if any(r[0] not in LITS for r in toks[idx + 1:]):
                    return False
            elif any(has_neg(a) for a in t[2]):
                return False
    return True


def in_fragment_path(toks):
    """Path mode: the fragment applies per segment."""
    seg = []
    for t in toks:
        if t[0] == 'sep':
            if not in_fragment(tuple(seg)):
                return False
            seg = []
        else:
            seg.append(t)
    return in_fragment(tuple(seg))


def has_dot_literal(toks):
    for t in toks:
        if t[0] in LITS and t[1] == '.':
            return True
        if t[0] == 'grp' and any(has_dot_literal(a) for a in t[2]):
            return True
        if t[0] == 'set' and not t[1] is None:
            pass
    return False


def pattern_chars(toks, acc=None):
    """Characters occurring in literals and sets of the pattern."""
    acc = set() if acc is None else acc
    for t in toks:
        k = t[0]
        if k in LITS:
            acc.add(t[1])
        elif k == 'set':
            for it in t[2]:
                if it[0] == 'c':
                    acc.add(it[1])
                elif it[0] == 'r':
                    acc.add(it[1])
                    acc.add(it[2])
                else:
                    acc.add(sorted(POSIX[it[1]])[len(POSIX[it[1]]) // 2])
        elif k == 'grp':
            for a in t[2]:
                pattern_chars(a, acc)
    return acc


# ---------------------------------------------------------------------------------------------
ATOMS = (
    ('lit', 'a'), ('lit', 'b'), ('lit', '.'), ('star',), ('q',),
    ('set', False, (('c', 'a'),)), ('set', True, (('c', 'a'),)),
    # a range that spans `.` without writing it, and a POSIX class that contains it
    ('set', False, (('r', '+', '9'),)), ('set', False, (('p', 'punct'),)),
)
ALTS = (
    (('lit', 'a'),), (('lit', 'b'),), (('q',),), (('star',),), (('lit', '.'),),
    (('lit', 'a'), ('lit', 'b')), (('lit', '.'), ('lit', 'a')), (('set', True, (('c', 'a'),)),), (),
)


def depth1_groups(kinds='?*+@!', alts=ALTS):
    for kind in kinds:
        for a in alts:
            yield ('grp', kind, (a,))
        for a, b in itertools.combinations(alts, 2):
            yield ('grp', kind, (a, b))


def token_pool(kinds='?*+@!'):
    return list(ATOMS) + list(depth1_groups(kinds))


def enum_sequences(pool, n):
    """All token sequences of length n over pool that serialise unambiguously."""
    for toks in itertools.product(pool, repeat=n):
        if ambiguous_adjacency(toks):
            continue
        yield toks


def names_upto(alpha, maxlen, minlen=1):
    for L in range(minlen, maxlen + 1):
        for tup in itertools.product(alpha, repeat=L):
            yield ''.join(tup)


# ---------------------------------------------------------------------------------------------
def rand_set(rng, alpha):
    neg = rng.random() < 0.4
    items = []
    for _ in range(rng.randint(1, 3)):
        r = rng.random()
        if r < 0.55:
            items.append(('c', rng.choice(alpha)))
        elif r < 0.8:
            if rng.random() < 0.3:
                # ranges over punctuation: they may span `.`, `/`, `-` ... without writing them
                lo, hi = sorted((rng.choice(' !#%+,'), rng.choice('09:@az~')))
            else:
                lo, hi = sorted((rng.choice('abcdxyzABCXYZ0159'), rng.choice('abcdxyzABCXYZ0159')))
            items.append(('r', lo, hi))
        else:
            items.append(('p', rng.choice(POSIX_NAMES)))
    return ('set', neg, tuple(items), rng.choice('!^'))


def rand_tokens(rng, maxtok=5, depth=2, alpha='ab.c', kinds='?*+@!', top=True, allow_neg=True):
    """Random AST (single name / segment level)."""
    n = rng.randint(0 if not top else 1, maxtok)
    out = []
    for _ in range(n):
        r = rng.random()
        if r < 0.38:
            c = rng.choice(alpha)
            out.append(('elit', c) if rng.random() < 0.08 and c not in 'abfnrtvxuUN0123456789' else ('lit', c))
        elif r < 0.52:
            out.append(('star',))
        elif r < 0.64:
            out.append(('q',))
        elif r < 0.76:
            out.append(rand_set(rng, alpha))
        elif depth > 0 and kinds:
            kk = kinds if allow_neg else kinds.replace('!', '')
            if not kk:
                continue
            kind = rng.choice(kk)
            nalts = rng.randint(1, 3)
            alts = tuple(rand_tokens(rng, 3, depth - 1, alpha, kinds, top=False, allow_neg=False)
                         for _ in range(nalts))
            out.append(('grp', kind, alts))
        else:
            out.append(('lit', rng.choice(alpha)))
    toks = tuple(out)
    # repair ambiguous adjacency by inserting a literal
    while ambiguous_adjacency(toks):
        fixed = []
        prev = None
        for t in toks:
            k = t[0]
            if prev in STARLIKE and k in STARLIKE:
                fixed.append(('lit', rng.choice('ab')))
            if k == 'grp':
                t = ('grp', t[1], tuple(_fix_adj(a, rng) for a in t[2]))
            fixed.append(t)
            prev = k
        toks = tuple(fixed)
    return toks


def _fix_adj(toks, rng):
    fixed = []
    prev = None
    for t in toks:
        k = t[0]
        if prev in STARLIKE and k in STARLIKE:
            fixed.append(('lit', rng.choice('ab')))
        if k == 'grp':
            t = ('grp', t[1], tuple(_fix_adj(a, rng) for a in t[2]))
        fixed.append(t)
        prev = k
    return tuple(fixed)


def make_fragment(toks, rng):
    """Force a random AST into C01's `!()` fragment: everything after a top-level `!()` becomes literal."""
    out = []
    seen_neg = False
    for t in toks:
        if seen_neg:
            if t[0] in LITS:
                out.append(t)
            continue
        if t[0] == 'grp' and t[1] == '!':
            alts = tuple(strip_neg(a) for a in t[2])
            out.append(('grp', '!', alts))
            seen_neg = True
        elif t[0] == 'grp':
            out.append(('grp', t[1], tuple(strip_neg(a) for a in t[2])))
        else:
            out.append(t)
    return tuple(out)


def strip_neg(toks):
    out = []
    for t in toks:
        if t[0] == 'grp':
            kind = '@' if t[1] == '!' else t[1]
            out.append(('grp', kind, tuple(strip_neg(a) for a in t[2])))
        else:
            out.append(t)
    return tuple(out)


# ---------------------------------------------------------------------------------------------
def derive(rng, toks, alpha='ab.c', budget=12, icase=False):
    """A random member of the (dot-rule-free) language of toks, or None. Negation yields a random string."""
    out = []
    for t in toks:
        k = t[0]
        if k in LITS:
            c = t[1]
            if icase and rng.random() < 0.5:
                c = c.swapcase()
            out.append(c)
        elif k == 'q':
            out.append(rng.choice(alpha))
        elif k == 'star':
            out.append(''.join(rng.choice(alpha) for _ in range(rng.choice((0, 0, 1, 1, 2, 3)))))
        elif k == 'set':
            cands = [c for c in set(alpha) | pattern_chars((t,)) | set('aZ5_ ') if set_has(t[2], c, icase) != t[1]
                     and c != '/']
            if not cands:
                return None
            out.append(rng.choice(sorted(cands)))
        elif k == 'grp':
            kind, alts = t[1], t[2]
            if kind == '!':
                out.append(''.join(rng.choice(alpha) for _ in range(rng.randint(0, 3))))
                continue
            reps = {'@': (1,), '?': (0, 1), '*': (0, 1, 2), '+': (1, 2)}[kind]
            for _ in range(rng.choice(reps)):
                d = derive(rng, rng.choice(alts), alpha, budget, icase)
                if d is None:
                    return None
                out.append(d)
        elif k in ('gstar', 'gstarlong'):
            out.append(''.join(rng.choice(alpha) for _ in range(rng.randint(0, 2))))
        elif k == 'sep':
            out.append('/')
        if sum(map(len, out)) > budget:
            break
    return ''.join(out)


def mutants(rng, s, alpha, n=3):
    res = set()
    for _ in range(n):
        if not s:
            res.add(rng.choice(alpha))
            continue
        op = rng.randrange(3)
        i = rng.randrange(len(s) + (1 if op == 0 else 0))
        if op == 0:
            res.add(s[:i] + rng.choice(alpha) + s[i:])
        elif op == 1:
            res.add(s[:i] + s[i + 1:])
        else:
            res.add(s[:i] + rng.choice(alpha) + s[i + 1:])
    res.discard('')
    return res


def name_universe(toks, rng, maxlen=4, sigma_cap=5, extra=(), derivations=6, icase=False, fresh='c'):
    """Bounded-exhaustive names over a per-pattern alphabet + derivation samples + their mutants."""
    chars = sorted(c for c in pattern_chars(toks) if c not in '/\n' and c.isprintable())
    sigma = []
    for c in chars + [fresh, '.']:
        if c not in sigma:
            sigma.append(c)
    if len(sigma) > sigma_cap:
        keep = {fresh, '.'}
        rest = [c for c in sigma if c not in keep]
        rng.shuffle(rest)
        sigma = sorted(keep) + rest[:sigma_cap - len(keep)]
    names = list(names_upto(sigma, maxlen))
    seen = set(names)
    alpha = ''.join(sigma)
    for _ in range(derivations):
        d = derive(rng, toks, alpha, icase=icase)
        if d:
            for x in [d] + sorted(mutants(rng, d, alpha)):
                if x and x not in seen and '/' not in x:
                    seen.add(x)
                    names.append(x)
    for x in extra:
        if x and x not in seen:
            seen.add(x)
            names.append(x)
    return names, alpha


# ---------------------------------------------------------------------------------------------
# Path mode
SEPS = ('/', '/', '/', '/', '//', '\\/', '\\/\\/', '/\\/', '\\//', '/\\//', '\\/\\//', '//\\/', '\\///', '/\\/\\//')


def seg_pool_small():
    """Reduced pool of whole-segment patterns for bounded-exhaustive path patterns."""
    pool = [(t,) for t in ATOMS]
    pool += [(('gstar',),), (('gstarlong',),)]
    pool += [(('lit', 'a'), ('star',)), (('star',), ('lit', 'b')), (('lit', '.'), ('star',)), (('q',), ('q',)),
             (('lit', 'a'), ('gstar',)), (('gstar',), ('lit', 'a')), (('lit', 'a'), ('lit', 'b'))]
    for kind in '?*+@!':
        pool.append((('grp', kind, ((('lit', 'a'),),)),))
        pool.append((('grp', kind, ((('lit', 'a'),), (('star',),))),))
        pool.append((('grp', kind, ((('lit', '.'), ('lit', 'a')), (('lit', 'b'),))),))
        pool.append((('grp', kind, ((('q',),), ())),))
    return pool


def join_segments(segs, rng=None, lead=False, trail=False, seps=None):
    toks = []
    if lead:
        toks.append(('sep', '/'))
    for i, s in enumerate(segs):
        if i:
            sep = (seps[i - 1] if seps else (rng.choice(SEPS) if rng else '/'))
            toks.append(('sep', sep))
        toks.extend(s)
    if trail:
        toks.append(('sep', '/'))
    return tuple(toks)


def rand_segment(rng, alpha='ab.c', depth=2):
    r = rng.random()
    if r < 0.12:
        return (('gstar',),)
    if r < 0.16:
        return (('gstarlong',),)
    if r < 0.22:
        # `**` glued to text: just a star there
        lit = ('lit', rng.choice('ab'))
        return (lit, ('gstar',)) if rng.random() < 0.5 else (('gstar',), lit)
    toks = rand_tokens(rng, maxtok=rng.randint(1, 4), depth=depth, alpha=alpha)
    return make_fragment(toks, rng) or (('lit', 'a'),)


def rand_path_tokens(rng, maxseg=3, alpha='ab.c', depth=2):
    n = rng.randint(1, maxseg)
    segs = [rand_segment(rng, alpha, depth) for _ in range(n)]
    # no two adjacent globstar segments of different kinds in assertions about merging: keep them, they are legal
    lead = rng.random() < 0.12
    trail = rng.random() < 0.2
    return join_segments(segs, rng, lead, trail)


def path_universe(toks, rng, nseg_names=6, maxseg=3, extra_names=(), allow_hidden=True, cap=420):
    """Paths built from a per-pattern pool of segment names, with separator variants."""
    from .refmodel import split_segments, norm_seg
    chars = sorted(c for c in pattern_chars(toks) if c not in '/\n\\' and c.isprintable())
    sigma = []
    for c in chars + ['c', '.']:
        if c not in sigma:
            sigma.append(c)
    sigma = sigma[:5] if len(sigma) > 5 else sigma
    if '.' not in sigma:
        sigma[-1] = '.'
    alpha = ''.join(sigma)
    names = []
    _abs, segs, _tr = split_segments(toks)
    for s in segs:
        for _ in range(3):
            d = derive(rng, norm_seg(s), alpha)
            if d and '/' not in d and d not in names:
                names.append(d)
    base = [x for x in names_upto(sigma, 2)]
    rng.shuffle(base)
    for x in list(extra_names) + base:
        if x not in names:
            names.append(x)
    if not allow_hidden:
        names = [n for n in names if not n.startswith('.')]
    # keep derivations first, then fill
    names = names[:nseg_names]
    paths = []
    for n in range(1, maxseg + 1):
        for tup in itertools.product(names, repeat=n):
            paths.append('/'.join(tup))
    if len(paths) > cap:
        head = paths[:len(names) + len(names) ** 2]
        rest = paths[len(head):]
        rng.shuffle(rest)
        paths = head + rest[:cap - len(head)]
    out = list(paths)
    for p in rng.sample(paths, min(len(paths), 40)):
        out.append(p + '/')
        if '/' in p:
            out.append(p.replace('/', '//', 1))
        out.append('/' + p)
    # whole-path derivations
    for _ in range(6):
        d = derive(rng, tuple(('star',) if t[0] in ('gstar', 'gstarlong') else t for t in toks), alpha)
        if d and d not in out and d.strip('/'):
            out.append(d)
    seen = set()
    res = []
    for p in out:
        if p and p not in seen:
            seen.add(p)
            res.append(p)
    return res


# ---------------------------------------------------------------------------------------------
# Patterns aimed at a concrete tree (so that they hit real entries)
def generalise_name(rng, name, ext=True):
    """A segment AST that matches `name` (and maybe more)."""
    r = rng.random()
    lits = tuple(('lit', c) for c in name)
    if r < 0.3:
        return lits
    if r < 0.42:
        return (('star',),)
    if r < 0.52 and name:
        i = rng.randrange(len(name))
        return lits[:i] + (('q',),) + lits[i + 1:]
    if r < 0.62 and name:
        i = rng.randrange(len(name) + 1)
        return lits[:i] + (('star',),)
    if r < 0.70 and name:
        i = rng.randrange(len(name))
        return (('star',),) + lits[i:]
    if r < 0.78 and name:
        i = rng.randrange(len(name))
        c = name[i]
        st = ('set', False, (('c', c), ('c', rng.choice('abx'))), '!') if rng.random() < 0.6 else ('set', True, (('c', 'z'),), rng.choice('!^'))
        return lits[:i] + (st,) + lits[i + 1:]
    if ext and r < 0.92:
        kind = rng.choice('@?*+!')
        other = tuple(('lit', c) for c in rng.choice(['a', 'b', 'zz', '.h', 'ab']))
        if kind == '!':
            return (('grp', '!', (other,)),)
        alts = [lits, other]
        rng.shuffle(alts)
        return (('grp', kind, tuple(alts)),)
    return lits


def tree_pattern(rng, entries, ext=True, globstar=True, maxseg=4, absolute_prefix=None):
    """Path-mode AST aimed at the given relative entry paths."""
    if entries and rng.random() < 0.85:
        base = rng.choice(entries).split('/')
    else:
        base = [rng.choice(['a', 'b', 'zz', '.h', 'A']) for _ in range(rng.randint(1, 3))]
    base = base[:maxseg]
    segs = []
    for nm in base:
        r = rng.random()
        if globstar and r < 0.14:
            segs.append((('gstar',),))
            if rng.random() < 0.5:
                continue
        elif globstar and r < 0.17:
            segs.append((('gstarlong',),))
            continue
        elif r < 0.22:
            dots = rng.choice(['.', '..'])
            spelling = rng.random()
            if spelling < 0.7:
                segs.append(tuple(('lit', c) for c in dots))
            elif spelling < 0.85:
                segs.append(tuple(('elit', c) for c in dots))           # `\.\.`: still written literally
            else:
                segs.append((('lit', '.'),) + tuple(('elit', c) for c in dots[1:]) if len(dots) > 1 else (('elit', '.'),))
        segs.append(generalise_name(rng, nm, ext))
    if globstar and rng.random() < 0.15:
        segs.append((('gstar',),))
    # drop directly adjacent identical globstars (legal but uninteresting)
    out = []
    for s in segs:
        if out and s in ((('gstar',),), (('gstarlong',),)) and out[-1] == s:
            continue
        out.append(s)
    trail = rng.random() < 0.18
    toks = join_segments(out, rng, lead=False, trail=trail)
    return toks
