"""Pins the interpreter environment: wcmatch must come from the repository working tree."""
import os
import sys
import shutil
import tempfile
import time

VERIF = os.path.dirname(os.path.dirname(os.path.abspath(__file__)))
REPO = os.environ.get('WCVERIF_REPO', '/repo')
# where evidence/ and replays/ are written: /verif itself, unless a mutation / seeded-change evaluation redirects it so that the
# evidence of the unchanged tree is not overwritten by a run against a deliberately broken copy
OUT = os.environ.get('WCVERIF_OUT') or VERIF
GUARD = 'WCMATCH_VERIF'

# The working tree is always what is executed: /repo first on sys.path, no byte code written into it.
sys.dont_write_bytecode = True
if REPO not in sys.path[:1]:
    sys.path.insert(0, REPO)


def import_wcmatch():
    """Import wcmatch and make sure it is the working tree of REPO."""

    import wcmatch
    from wcmatch import fnmatch, glob, pathlib, wcmatch as wcm, _wcparse, _wcmatch, util  # noqa: F401
    here = os.path.realpath(os.path.dirname(wcmatch.__file__))
    want = os.path.realpath(os.path.join(REPO, 'wcmatch'))
    if here != want:
        raise RuntimeError(f'wcmatch imported from {here}, expected {want}')
    return wcmatch


def scratch_base():
    """Directory under which scratch trees are made (never under /repo or /verif)."""

    for cand in ('/dev/shm', os.environ.get('TMPDIR') or '/tmp'):
        if os.path.isdir(cand) and os.access(cand, os.W_OK):
            return cand
    return tempfile.gettempdir()


def sweep_leftovers(max_age=3600):
    """Remove scratch directories left behind by crashed runs."""

    base = scratch_base()
    now = time.time()
    try:
        names = os.listdir(base)
    except OSError:
        return
    for n in names:
        if n.startswith('wcverif-'):
            p = os.path.join(base, n)
            try:
                if now - os.lstat(p).st_mtime > max_age:
                    shutil.rmtree(p, ignore_errors=True)
            except OSError:
                pass


def mkscratch(tag=''):
    return tempfile.mkdtemp(prefix=f'wcverif-{tag}', dir=scratch_base())


def mknested(tag=''):
    """(base, root): root lies four private levels below the shared scratch base (see wcverif.tree.Tree)."""
    base = mkscratch(tag)
    root = os.path.join(base, 'w', 'x', 'y', 'root')
    os.makedirs(root)
    return base, root
