"""Mechanism predicates that attribute an observed disagreement to a known finding.

A witness is attributed to a finding only if the *defect model* of that finding (the reference model
with exactly one documented deviation switched on) reproduces the observed answer, or - where no
executable defect model exists - if a structural predicate on the witness holds. Anything else is a
violation, even when it involves similar pattern shapes. Whether an attributed witness is *suppressed*
is decided by known_findings.json (only `open` entries for the property suppress).
"""
from . import refmodel as R


def _first_guarded_star_then_stargroup(toks):
    """`*` standing at a name/segment start directly followed by `*(...)`: serialises to `**(`."""
    if len(toks) >= 2 and toks[0][0] == 'star' and toks[1][0] == 'grp' and toks[1][1] == '*':
        return True
    for t in toks[:1]:
        if t[0] == 'grp':
            return any(_first_guarded_star_then_stargroup(a) for a in t[2])
    return False


def classify_segment(toks, name, dot, icase, observed, fn_mode=True, nosep=''):
    """Attribute a single-name disagreement (fnmatch mode, or one path segment)."""

    for q, fid in ((('NL',), 'KF-DOLLAR-NEWLINE'), ('B', 'KF-DOTGUARD-IN-REPEAT'), ('A', 'KF-DOTGUARD-POSITIONAL'),
                   (('NL', 'B'), 'KF-DOLLAR-NEWLINE'), (('A', 'B'), 'KF-DOTGUARD-POSITIONAL'),
                   (('NL', 'A'), 'KF-DOLLAR-NEWLINE')):
        if 'NL' in q and not name.endswith('\n'):
            continue
        try:
            if R.seg_quirk(toks, name, dot, icase, nosep, q, fn_star=fn_mode, pathseg=bool(nosep)) == observed:
                return fid
        except RecursionError:
            pass
    if _first_guarded_star_then_stargroup(toks):
        return 'KF-STARSTAR-EXTGROUP'
    return None


def classify_path(toks, path, ps, observed):
    """Attribute a path-mode (no file system) disagreement."""

    cands = [('B', 'KF-DOTGUARD-IN-REPEAT'), ('A', 'KF-DOTGUARD-POSITIONAL'), (('MBGS',), 'KF-MATCHBASE-GLOBSTAR-HIDDEN'),
             (('A', 'B'), 'KF-DOTGUARD-POSITIONAL'), (('MBGS', 'A'), 'KF-MATCHBASE-GLOBSTAR-HIDDEN'),
             (('MBGS', 'B'), 'KF-MATCHBASE-GLOBSTAR-HIDDEN')]
    if ps.dot and not ps.nodotdir:
        cands += [(('A', 'D'), 'KF-NEGGROUP-DOT-UNGUARDS-DOTDIR'), (('A', 'B', 'D'), 'KF-NEGGROUP-DOT-UNGUARDS-DOTDIR')]
    if path.endswith('\n'):
        cands = [(('NL',), 'KF-DOLLAR-NEWLINE')] + cands
    try:
        base = R.path_match3(toks, path, ps)
    except RecursionError:
        base = None
    if base is None or base == observed:
        # not a disagreement with the pure-text model: the defect models have nothing to explain
        return None
    for q, fid in cands:
        try:
            if R.path_match3(toks, path, ps, quirks=frozenset(q)) in (observed, None):
                return fid
        except RecursionError:
            pass
    return None
