"""Substrate: worker context, sharded runner, verdicts, evidence and replay files."""
import contextlib
import hashlib
import importlib
import json
import os
import random
import signal
import subprocess
import sys
import tempfile
import time
import traceback

from . import env

PROPS = [f'C{n:02d}' for n in range(1, 21)]
MAX_VIOLATION_LINES = 5


class CaseTimeout(BaseException):
    """Raised by the per-case watchdog; a case that hits it is inconclusive, never a violation."""


def jsonable(o):
    """Best-effort conversion of witnesses to JSON (tuples -> lists, bytes -> tagged)."""

    if isinstance(o, (str, int, float, bool)) or o is None:
        return o
    if isinstance(o, bytes):
        return {'__bytes__': o.decode('latin-1')}
    if isinstance(o, dict):
        return {str(k): jsonable(v) for k, v in o.items()}
    if isinstance(o, (list, tuple)):
        return [jsonable(x) for x in o]
    if isinstance(o, (set, frozenset)):
        return sorted((jsonable(x) for x in o), key=repr)
    return repr(o)


def unjson(o):
    """Inverse of jsonable for what replay needs (lists -> tuples, tagged bytes)."""

    if isinstance(o, dict):
        if set(o) == {'__bytes__'}:
            return o['__bytes__'].encode('latin-1')
        return {k: unjson(v) for k, v in o.items()}
    if isinstance(o, list):
        return tuple(unjson(x) for x in o)
    return o


def h64(key):
    return int.from_bytes(hashlib.blake2b(repr(key).encode('utf-8', 'surrogatepass'), digest_size=8).digest(), 'big')


class Ctx:
    """Per-worker context handed to a check's run()."""

    def __init__(self, prop, tier, seed, shard=0, nshards=1):
        self.prop = prop
        self.tier = tier
        self.quick = tier == 'quick'
        self.seed = seed
        self.shard = shard
        self.nshards = nshards
        self.rng = random.Random(f'{prop}/{seed}/{shard}')
        self.evaluations = 0
        self.nontrivial = set()
        self.samples = []
        self.sample_cap = 4
        self.violations = {}      # sig -> witness (first per signature)
        self.violation_count = 0
        self.known = {}           # finding id -> [count, first witness]
        self.counters = {}
        self.sets = {}
        self.inconclusive = 0
        self.cases = 0
        self.notes = []
        self.case_timeout = 5.0 if self.quick else 20.0
        self._open = None
        self.deadline = None

    # -- sharding ---------------------------------------------------------------------------
    def mine(self, index):
        return index % self.nshards == self.shard

    def rng_for(self, *key):
        """RNG that depends on the case only (not on the shard), for reproducible cases."""

        return random.Random(repr((self.prop, self.seed) + key))

    def out_of_time(self):
        if self.deadline is not None and time.monotonic() > self.deadline:
            # the workload of this shard was cut by the time budget: visible in the evidence, never a verdict by itself
            self.counters['shards_cut_by_time_budget'] = 1
            return True
        return False

    # -- accounting --------------------------------------------------------------------------
    def evals(self, n=1):
        self.evaluations += n

    def mark_nontrivial(self, key):
        self.nontrivial.add(h64(key))

    def sample(self, obj):
        if len(self.samples) < self.sample_cap:
            self.samples.append(jsonable(obj))

    def count(self, name, n=1):
        self.counters[name] = self.counters.get(name, 0) + n

    def add_to_set(self, name, item):
        self.sets.setdefault(name, set()).add(item)

    def note(self, text):
        if len(self.notes) < 20:
            self.notes.append(text)

    # -- verdict inputs ----------------------------------------------------------------------
    def open_findings(self):
        if self._open is None:
            self._open = load_open_findings(self.prop)
        return self._open

    def disagree(self, sig, witness, finding=None):
        """Record a disagreement between an oracle and an observed execution.

        `finding` is the id of the known finding whose *mechanism predicate* explains the witness
        (decided by the caller through wcverif.findings); anything else is a violation.
        """

        if finding is not None and finding in self.open_findings():
            ent = self.known.setdefault(finding, [0, jsonable(witness)])
            ent[0] += 1
            return False
        self.violation_count += 1
        if finding is not None:
            sig = f'{sig}|unlisted:{finding}'
        if sig not in self.violations and len(self.violations) < 40:
            self.violations[sig] = jsonable(witness)
        return True

    @contextlib.contextmanager
    def case(self, timeout=None, label=None):
        """Watchdog around one case. Timeout => inconclusive (never a violation)."""

        self.cases += 1
        t = timeout or self.case_timeout

        def on_alarm(signum, frame):
            raise CaseTimeout()

        old = signal.signal(signal.SIGALRM, on_alarm)
        signal.setitimer(signal.ITIMER_REAL, t)
        try:
            yield
        except CaseTimeout:
            self.inconclusive += 1
            if label is not None:
                self.note(f'watchdog: {label!r}')
        finally:
            signal.setitimer(signal.ITIMER_REAL, 0)
            signal.signal(signal.SIGALRM, old)

    def result(self):
        return {
            'evaluations': self.evaluations,
            'nontrivial': sorted(self.nontrivial),
            'samples': self.samples,
            'violations': self.violations,
            'violation_count': self.violation_count,
            'known': self.known,
            'counters': self.counters,
            'sets': {k: sorted(v, key=repr) for k, v in self.sets.items()},
            'inconclusive': self.inconclusive,
            'cases': self.cases,
            'notes': self.notes,
        }


# --------------------------------------------------------------------------------------------
def load_findings():
    path = os.path.join(env.VERIF, 'known_findings.json')
    with open(path) as f:
        return json.load(f)['findings']


def load_open_findings(prop):
    out = {}
    for ent in load_findings():
        if ent.get('status') == 'open' and prop in ent.get('properties', []):
            out[ent['id']] = ent
    return out


def load_check(prop):
    return importlib.import_module(f'wcverif.checks.{prop.lower()}')


class LineProbe:
    """Anchor-coverage probe: which lines of /repo/wcmatch executed (sys.monitoring, one event per line)."""

    def __init__(self):
        self.hit = set()
        self.ok = False

    def start(self):
        mon = getattr(sys, 'monitoring', None)
        if mon is None:
            return
        prefix = os.path.join(os.path.realpath(env.REPO), 'wcmatch') + os.sep
        tool = mon.COVERAGE_ID
        try:
            mon.use_tool_id(tool, 'wcverif-cov')
        except ValueError:
            return
        hit = self.hit

        def on_line(code, line):
            fn = code.co_filename
            if fn.startswith(prefix) or os.path.realpath(fn).startswith(prefix):
                hit.add((os.path.basename(fn), line))
            return mon.DISABLE

        mon.register_callback(tool, mon.events.LINE, on_line)
        mon.set_events(tool, mon.events.LINE)
        self.ok = True
        self.tool = tool

    def stop(self):
        if self.ok:
            mon = sys.monitoring
            mon.set_events(self.tool, 0)
            mon.register_callback(self.tool, mon.events.LINE, None)
            mon.free_tool_id(self.tool)
            self.ok = False

    def summary(self):
        per = {}
        for fn, _ in self.hit:
            per[fn] = per.get(fn, 0) + 1
        return per


def worker_main(argv):
    prop, tier, seed, shard, nshards, out = argv[0], argv[1], int(argv[2]), int(argv[3]), int(argv[4]), argv[5]
    budget = float(argv[6]) if len(argv) > 6 else None
    import warnings
    warnings.simplefilter('ignore')
    env.import_wcmatch()
    mod = load_check(prop)
    ctx = Ctx(prop, tier, seed, shard, nshards)
    if budget:
        ctx.deadline = time.monotonic() + budget
    probe = LineProbe()
    if getattr(mod, 'LINE_PROBE', True):
        probe.start()
    err = None
    try:
        mod.run(ctx)
    except BaseException:  # noqa: BLE001
        err = traceback.format_exc()
    finally:
        probe.stop()
    res = ctx.result()
    res['lines'] = sorted(probe.hit)
    res['error'] = err
    with open(out, 'w') as f:
        json.dump(res, f)
    return 0


# --------------------------------------------------------------------------------------------
def run_check(prop, tier, seed, nshards=None, verbose=True):
    """Parent: shard the workload, merge, decide, write evidence. Returns the exit code."""

    t0 = time.time()
    env.sweep_leftovers()
    mod = load_check(prop)
    spec = mod.SPEC
    nshards = nshards or int(os.environ.get('VERIF_SHARDS', 0)) or min(16, os.cpu_count() or 1)
    nshards = min(nshards, spec.get('max_shards', 16))
    shard_timeout = spec.get('shard_timeout', {'quick': 600, 'thorough': 3600})[tier]
    budget = spec.get('budget', {'quick': None, 'thorough': None}).get(tier)
    tmpd = tempfile.mkdtemp(prefix='wcverif-run-', dir=env.scratch_base())
    child_env = dict(os.environ)
    child_env.update({
        'PYTHONHASHSEED': '0', 'PYTHONDONTWRITEBYTECODE': '1', env.GUARD: '1',
        'PYTHONPATH': env.VERIF + os.pathsep + env.REPO,
    })
    procs = []
    for s in range(nshards):
        out = os.path.join(tmpd, f'{s}.json')
        cmd = [sys.executable, '-m', 'wcverif.core', '--worker', prop, tier, str(seed), str(s), str(nshards), out]
        if budget:
            cmd.append(str(budget))
        procs.append((s, out, subprocess.Popen(cmd, cwd=env.VERIF, env=child_env,
                                               stdout=subprocess.PIPE, stderr=subprocess.STDOUT)))
    results = []
    problems = []
    deadline = time.time() + shard_timeout
    for s, out, p in procs:
        try:
            so, _ = p.communicate(timeout=max(1, deadline - time.time()))
        except subprocess.TimeoutExpired:
            p.kill()
            so, _ = p.communicate()
            problems.append(f'shard {s} exceeded the {shard_timeout}s wall-clock watchdog')
            continue
        if so and verbose:
            txt = so.decode('utf-8', 'replace').strip()
            if txt:
                print(f'[shard {s}] {txt[-2000:]}')
        try:
            with open(out) as f:
                results.append(json.load(f))
        except (OSError, ValueError):
            problems.append(f'shard {s} produced no result (exit {p.returncode})')
    import shutil
    shutil.rmtree(tmpd, ignore_errors=True)

    merged = {
        'evaluations': 0, 'nontrivial': set(), 'samples': [], 'violations': {}, 'violation_count': 0,
        'known': {}, 'counters': {}, 'sets': {}, 'inconclusive': 0, 'cases': 0, 'notes': [], 'lines': set()
    }
    for r in results:
        if r.get('error'):
            problems.append('worker error: ' + r['error'][-1500:])
        merged['evaluations'] += r['evaluations']
        merged['nontrivial'].update(r['nontrivial'])
        for smp in r['samples']:
            if len(merged['samples']) < 8:
                merged['samples'].append(smp)
        for sig, w in r['violations'].items():
            merged['violations'].setdefault(sig, w)
        merged['violation_count'] += r['violation_count']
        for k, (n, w) in r['known'].items():
            ent = merged['known'].setdefault(k, [0, w])
            ent[0] += n
        for k, n in r['counters'].items():
            merged['counters'][k] = merged['counters'].get(k, 0) + n
        for k, v in r['sets'].items():
            merged['sets'].setdefault(k, set()).update(map(repr, v))
        merged['inconclusive'] += r['inconclusive']
        merged['cases'] += r['cases']
        merged['notes'].extend(r['notes'])
        merged['lines'].update(map(tuple, r['lines']))

    wall = time.time() - t0
    # ---- verdict ---------------------------------------------------------------------------
    code = 0
    lines_out = []
    findings = {e['id']: e for e in load_findings()}
    for fid, (n, w) in sorted(merged['known'].items()):
        lines_out.append(f'KNOWN-FINDING: property={prop} {fid} {findings[fid]["what_fails"]} (witnessed {n}x this run)')
    replay_paths = []
    if merged['violations']:
        code = 1
        rdir = os.path.join(env.OUT, 'replays', prop)
        os.makedirs(rdir, exist_ok=True)
        for sig, w in list(merged['violations'].items())[:MAX_VIOLATION_LINES]:
            path = os.path.join(rdir, f'{h64(sig):016x}.json')
            with open(path, 'w') as f:
                json.dump({'property': prop, 'signature': sig, 'seed': seed, 'tier': tier, 'witness': w}, f, indent=1)
            replay_paths.append(path)
            lines_out.append(f'VIOLATION property={prop} replay={path}')
            lines_out.append(f'  signature: {sig}')
            lines_out.append(f'  witness: {json.dumps(w)[:600]}')
        more = list(merged['violations'])[MAX_VIOLATION_LINES:]
        if more:
            lines_out.append(f'  (+{len(more)} further violation signatures not written as replay files)')
            for sig in more[:40]:
                lines_out.append(f'    - {sig}')
    inconclusive_reasons = list(problems)
    if code == 0:
        floor = spec.get('floor', {'quick': 1, 'thorough': 1})[tier]
        if merged['evaluations'] < floor:
            inconclusive_reasons.append(f'only {merged["evaluations"]} oracle evaluations (< floor {floor})')
        if len(merged['nontrivial']) < 2:
            inconclusive_reasons.append('fewer than 2 distinct non-trivial cases')
        if merged['cases'] and merged['inconclusive'] > 0.05 * merged['cases']:
            inconclusive_reasons.append(f'{merged["inconclusive"]} of {merged["cases"]} cases hit the watchdog')
        for cname in spec.get('required_counters', []):
            if not merged['counters'].get(cname):
                inconclusive_reasons.append(f'deciding monitor never reached: counter {cname} = 0')
        if inconclusive_reasons:
            code = 2
            lines_out.append(f'INCONCLUSIVE property={prop} reason=' + '; '.join(r.splitlines()[-1] if r else r
                                                                              for r in inconclusive_reasons))
            for r in problems:
                lines_out.append(r)

    # ---- evidence --------------------------------------------------------------------------
    per_file = {}
    for fn, _ in merged['lines']:
        per_file[fn] = per_file.get(fn, 0) + 1
    cov = {
        'evaluations': merged['evaluations'],
        'distinct_nontrivial': len(merged['nontrivial']),
        'rule': spec['rule'],
        'samples': merged['samples'] or ['(no sample recorded)'],
        'exhaustive': bool(spec.get('exhaustive', False)),
        'cases': merged['cases'],
        'inconclusive_cases': merged['inconclusive'],
        'counters': dict(sorted(merged['counters'].items())),
        'distinct_sets': {k: len(v) for k, v in merged['sets'].items()},
        'repo_lines_executed': dict(sorted(per_file.items())),
        'known_findings_witnessed': {k: v[0] for k, v in merged['known'].items()},
        'known_finding_witnesses': {k: v[1] for k, v in merged['known'].items()},
        'bounds': spec.get('bounds', {}).get(tier, spec.get('bounds', {})),
        'shards': nshards,
        'verdict': {0: 'held on what was observed', 1: 'violated', 2: 'inconclusive'}[code],
        'notes': merged['notes'][:20],
    }
    ev = {
        'property_id': prop, 'tier': tier, 'seed': seed, 'level': spec.get('level', 'exploration'),
        'coverage': cov, 'assumptions': spec.get('assumptions', []), 'wall_s': round(wall, 2),
        'violations': merged['violation_count'],
    }
    os.makedirs(os.path.join(env.OUT, 'evidence'), exist_ok=True)
    with open(os.path.join(env.OUT, 'evidence', f'{prop}.json'), 'w') as f:
        json.dump(ev, f, indent=1, sort_keys=False)
        f.write('\n')
    if verbose:
        print(f'{prop} tier={tier} seed={seed} shards={nshards} evaluations={merged["evaluations"]} '
              f'distinct_nontrivial={len(merged["nontrivial"])} cases={merged["cases"]} '
              f'inconclusive_cases={merged["inconclusive"]} wall={wall:.1f}s')
        keys = ', '.join(f'{k}={v}' for k, v in sorted(merged['counters'].items()))
        if keys:
            print('counters: ' + keys)
    for ln in lines_out:
        print(ln)
    if verbose:
        print({0: 'HELD', 1: 'VIOLATED', 2: 'INCONCLUSIVE'}[code] + f' property={prop}')
    sys.stdout.flush()
    return code


def run_replay(prop, path):
    env.import_wcmatch()
    mod = load_check(prop)
    with open(path) as f:
        data = json.load(f)
    ctx = Ctx(prop, data.get('tier', 'quick'), data.get('seed', 0))
    w = unjson(data['witness'])
    still = mod.replay(ctx, w)
    if still:
        print(f'VIOLATION property={prop} replay={path}')
        print(f'  still reproduces: {json.dumps(jsonable(still))[:800]}')
        return 1
    print(f'replay {path}: the recorded disagreement no longer reproduces')
    return 0


def main(argv=None):
    argv = list(sys.argv[1:] if argv is None else argv)
    if argv and argv[0] == '--worker':
        return worker_main(argv[1:])
    import argparse
    ap = argparse.ArgumentParser(prog='check')
    ap.add_argument('prop')
    ap.add_argument('--tier', default=os.environ.get('VERIF_TIER') or 'quick', choices=['quick', 'thorough'])
    ap.add_argument('--seed', type=int, default=int(os.environ.get('VERIF_SEED') or 0))
    ap.add_argument('--replay')
    ap.add_argument('--shards', type=int)
    a = ap.parse_args(argv)
    prop = a.prop.upper()
    if prop not in PROPS:
        ap.error(f'unknown property {prop}')
    if a.replay:
        return run_replay(prop, a.replay)
    return run_check(prop, a.tier, a.seed, a.shards)


if __name__ == '__main__':
    sys.exit(main())
