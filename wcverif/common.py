"""Helpers shared by the checks: flag naming, exception classification, shapes for signatures."""
from . import env

env.import_wcmatch()
from wcmatch import fnmatch as F  # noqa: E402
from wcmatch import glob as G  # noqa: E402
from wcmatch import _wcparse as P  # noqa: E402

FLAGN = {
    'CASE': P.CASE, 'IGNORECASE': P.IGNORECASE, 'RAWCHARS': P.RAWCHARS, 'NEGATE': P.NEGATE,
    'MINUSNEGATE': P.MINUSNEGATE, 'DOTMATCH': P.DOTMATCH, 'EXTMATCH': P.EXTMATCH, 'GLOBSTAR': P.GLOBSTAR,
    'BRACE': P.BRACE, 'REALPATH': P.REALPATH, 'FOLLOW': P.FOLLOW, 'SPLIT': P.SPLIT, 'MATCHBASE': P.MATCHBASE,
    'NODIR': P.NODIR, 'NEGATEALL': P.NEGATEALL, 'FORCEWIN': P.FORCEWIN, 'FORCEUNIX': P.FORCEUNIX,
    'GLOBTILDE': P.GLOBTILDE, 'NOUNIQUE': P.NOUNIQUE, 'NODOTDIR': P.NODOTDIR, 'GLOBSTARLONG': P.GLOBSTARLONG,
    'MARK': G.MARK, 'SCANDOTDIR': G.SCANDOTDIR,
}
ALIASES = {'DOTGLOB': 'DOTMATCH', 'EXTGLOB': 'EXTMATCH'}
# the flags wcmatch.pathlib documents (kept here, not read from the repository's FLAG_MASK: a change of that mask must be visible)
PATHLIB_FLAG_NAMES = ['CASE', 'IGNORECASE', 'RAWCHARS', 'DOTMATCH', 'EXTMATCH', 'GLOBSTAR', 'GLOBSTARLONG', 'NEGATE', 'MINUSNEGATE', 'BRACE',
                      'REALPATH', 'FOLLOW', 'SPLIT', 'MATCHBASE', 'NEGATEALL', 'NODIR', 'NOUNIQUE', 'NODOTDIR', 'SCANDOTDIR']


def pathlib_mask():
    v = 0
    for n in PATHLIB_FLAG_NAMES:
        v |= FLAGN[n]
    return v


# flags each module documents (own tables: a change of a module's FLAG_MASK must stay visible); every other bit is foreign to it and ignored
FNMATCH_FLAG_NAMES = ['CASE', 'IGNORECASE', 'RAWCHARS', 'NEGATE', 'MINUSNEGATE', 'DOTMATCH', 'EXTMATCH', 'BRACE', 'SPLIT', 'NEGATEALL', 'FORCEWIN', 'FORCEUNIX']
WCMATCH_PARSER_FLAG_NAMES = ['CASE', 'IGNORECASE', 'RAWCHARS', 'EXTMATCH', 'GLOBSTAR', 'BRACE', 'MINUSNEGATE', 'MATCHBASE']


def foreign_bits(names, extra=0, width=40):
    """Single bits (below 2**width) outside the documented set `names` (+ `extra`)."""
    own = extra
    for n in names:
        own |= FLAGN[ALIASES.get(n, n)]
    return [1 << i for i in range(width) if not own & (1 << i)]


def flags_of(names):
    v = 0
    for n in names:
        v |= FLAGN[ALIASES.get(n, n)]
    return v


def names_of(flags):
    return sorted(n for n, v in FLAGN.items() if flags & v)


def shape(toks, depth=0):
    """Short structural description of an AST used in violation signatures (not in attribution)."""
    out = []
    for t in toks[:6]:
        k = t[0]
        if k == 'grp':
            out.append(t[1] + '(' + ('|'.join(shape(a, depth + 1) for a in t[2][:3]) if depth < 1 else '..') + ')')
        elif k == 'set':
            out.append('[!]' if t[1] else '[]')
        elif k in ('lit', 'elit'):
            out.append('.' if t[1] == '.' else 'c')
        elif k == 'star':
            out.append('*')
        elif k == 'q':
            out.append('?')
        elif k == 'sep':
            out.append('/')
        elif k == 'gstar':
            out.append('**')
        elif k == 'gstarlong':
            out.append('***')
    return ''.join(out)


def exc_sig(e):
    return type(e).__name__
