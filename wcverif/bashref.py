"""Bash 5.2 pathname expansion as an oracle for the syntax wcmatch shares with it (C05)."""
import os
import shutil
import subprocess

BASH = shutil.which('bash') or '/bin/bash'


def available():
    try:
        out = subprocess.run([BASH, '-c', 'echo ${BASH_VERSINFO[0]}.${BASH_VERSINFO[1]}'], capture_output=True, timeout=10)
        v = out.stdout.decode().strip().split('.')
        return (int(v[0]), int(v[1])) >= (5, 2)
    except Exception:  # noqa: BLE001
        return False


def in_fragment(toks):
    """Negation-free, empty-alternative-free, no `***`; the fragment where Bash itself is well behaved."""
    for t in toks:
        k = t[0]
        if k == 'gstarlong':
            return False
        if k == 'grp':
            if t[1] == '!':
                return False
            for a in t[2]:
                if not a or not in_fragment(a):
                    return False
                if any(x[0] in ('sep', 'gstar') for x in a):
                    return False
        if k == 'set':
            # keep bracket contents plain: Bash and wcmatch differ on odd ranges / escapes inside brackets
            for it in t[2]:
                if it[0] == 'r' and not (it[1].isalnum() and it[2].isalnum()):
                    return False
                if it[0] == 'c' and not (it[1].isalnum() or it[1] in '._'):
                    return False
        if k == 'elit' and not t[1].isalnum() and t[1] not in '.*?[]()|!+@':
            return False
    return True


def expand(root, pattern_texts, globstar=False, dotglob=False, scandotdir=False):
    """Run Bash pathname expansion of each pattern in `root`; returns a list of result lists (only existing paths)."""
    opts = ['nullglob', 'extglob']
    if globstar:
        opts.append('globstar')
    if dotglob:
        opts.append('dotglob')
    lines = ['shopt -s ' + ' '.join(opts)]
    lines.append('shopt -u globskipdots' if scandotdir else 'shopt -s globskipdots')
    lines.append('cd -- "$1" || exit 3')
    for p in pattern_texts:
        # the shopt lines must precede the pattern line: extglob has to be active when the pattern is parsed
        lines.append(f'for f in {p}; do printf "%s\\0" "$f"; done')
        lines.append('printf "\\001\\0"')
    script = '\n'.join(lines) + '\n'
    env = dict(os.environ, LC_ALL='C', LANG='C')
    out = subprocess.run([BASH, '--norc', '--noprofile', '-s', '--', root], input=script.encode('utf-8', 'surrogateescape'),
                         capture_output=True, timeout=60, env=env)
    if out.returncode != 0:
        raise RuntimeError(f'bash failed: {out.stderr[:300]!r}')
    chunks = out.stdout.split(b'\x01\x00')
    res = []
    for ch in chunks[:len(pattern_texts)]:
        items = [os.fsdecode(x) for x in ch.split(b'\x00') if x]
        # a word without glob characters is passed through whether or not it exists: keep existing paths only
        res.append([x for x in items if os.path.lexists(os.path.join(root, x))])
    return res
