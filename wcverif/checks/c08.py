"""C08 - translate returns regexes that mean exactly what match does (DESIGN.md section 5, C08)."""
import re

from .. import gen
from ..composite import rand_composite
from ..common import F, G, flags_of

SPEC = {
    'rule': ('single patterns (bounded-exhaustive token sequences and random ASTs, file-name and path mode) and composite calls '
             '(lists, exclusions, SPLIT, BRACE) are handed to the real fnmatch.translate / glob.translate under sampled '
             'combinations of every public flag of the two functions (no REALPATH: that needs a file system); every returned '
             'regex is re.compile()d and fullmatch()ed against every name of the universe (hidden names, paths, both separator '
             'spellings under FORCEWIN, case twins) and the boolean combination is compared with the corresponding '
             'fnmatch()/globmatch() call; the number of capturing groups must equal the number of extended groups of the AST, '
             'and for patterns that are literal text interleaved with non-negated top-level groups the captured texts '
             'must re-assemble the name, nested captures lying inside their parents. A case is one (pattern list, flag set); it '
             'is non-trivial when its universe held both a matching and a non-matching name.'),
    'bounds': {'quick': {'enumerated': 'length 1 exhaustive + length 2 sampled 3%', 'composites_per_shard': 120, 'random_asts_per_shard': 120},
               'thorough': {'enumerated': 'length 1-2 exhaustive', 'random': 'until the time budget'}},
    'floor': {'quick': 200000, 'thorough': 2000000},
    'required_counters': ['regexes_compiled', 'match_equivalence_checks', 'group_count_checks', 'capture_reassembly_checks',
                          'nested_capture_checks', 'composite_cases'],
    'budget': {'quick': 45, 'thorough': 480},
    'shard_timeout': {'quick': 400, 'thorough': 1500},
    'assumptions': ['names are bounded (universe per pattern); regex language equality beyond the universe is not decided'],
}

FN_OPT = ['CASE', 'IGNORECASE', 'DOTMATCH', 'FORCEWIN', 'FORCEUNIX', 'NEGATEALL']
GL_OPT = FN_OPT + ['GLOBSTAR', 'GLOBSTARLONG', 'MATCHBASE', 'NODIR', 'NODOTDIR', 'FOLLOW', 'NOUNIQUE']


def flag_choice(rng, path_mode, idx):
    opts = GL_OPT if path_mode else FN_OPT
    k = idx % (len(opts) + 1)
    base = [] if k == len(opts) else [opts[k]]
    for f in opts:
        if rng.random() < 0.15 and f not in base:
            base.append(f)
    return base


def universe(ctx, toks, rng, path_mode, flags):
    win = 'FORCEWIN' in flags and 'FORCEUNIX' not in flags
    if path_mode:
        names = gen.path_universe(toks, rng, cap=200, extra_names=['.a', '.'])
    else:
        names, _ = gen.name_universe(toks, rng, maxlen=3, sigma_cap=5, derivations=8)
        names += ['.' + n for n in names[:40]]
        names += ['a/b', '/', 'a/']
    extra = []
    for n in names[:60]:
        if win and '/' in n:
            extra.append(n.replace('/', '\\'))
        if n.lower() != n.upper():
            extra.append(n.swapcase())
    return list(dict.fromkeys(names + extra + ['a\n', '\n']))


def top_level_capture_shape(toks):
    """If toks is literal text interleaved with non-negated groups (top level), return True."""
    if not any(t[0] == 'grp' for t in toks):
        return False
    for t in toks:
        if t[0] == 'grp':
            if t[1] == '!' or gen.has_neg(t[2][0:0] + tuple(x for a in t[2] for x in a)):
                return False
        elif t[0] not in ('lit', 'elit', 'sep'):
            return False
    return True


def group_tree(toks, acc=None, parent=None):
    """Groups in order of opening with their parent index and negation context."""
    acc = [] if acc is None else acc
    for t in toks:
        if t[0] == 'grp':
            me = len(acc)
            acc.append((t[1], parent))
            for a in t[2]:
                group_tree(a, acc, me)
    return acc


def check(ctx, mod, patterns, exclude, fnames, names, toks=None, key=None):
    flags = flags_of(fnames)
    kw = {'exclude': exclude} if exclude is not None else {}
    wit = {'api': mod.__name__.split('.')[-1] + '.translate', 'patterns': patterns, 'exclude': exclude, 'flags': sorted(fnames)}
    if toks is not None:
        wit['ast'] = toks
    try:
        inc, exc = mod.translate(patterns, flags=flags, **kw)
    except Exception as e:  # noqa: BLE001
        ctx.disagree(f'translate raised {type(e).__name__}', dict(wit, exception=repr(e)[:200]))
        return
    try:
        rinc = [re.compile(r) for r in inc]
        rexc = [re.compile(r) for r in exc]
    except Exception as e:  # noqa: BLE001
        ctx.disagree('translate returned a regex that does not compile', dict(wit, regexes=[inc, exc], exception=repr(e)[:200]))
        return
    ctx.count('regexes_compiled', len(rinc) + len(rexc))
    try:
        m = mod.compile(patterns, flags=flags, **kw)
    except Exception as e:  # noqa: BLE001
        ctx.disagree(f'compile raised {type(e).__name__} although translate succeeded', dict(wit, exception=repr(e)[:200]))
        return
    yes = no = 0
    for n in names:
        via = any(r.fullmatch(n) for r in rinc) and not any(r.fullmatch(n) for r in rexc)
        got = m.match(n)
        ctx.evals()
        ctx.count('match_equivalence_checks')
        if via:
            yes += 1
        else:
            no += 1
        if got is not via:
            ctx.disagree('match() differs from the translate() regexes' + (' (list/exclusion)' if exclude is not None or not isinstance(patterns, str) else ''),
                         dict(wit, name=n, via_translate=via, match=got, regexes=[inc, exc]))
            break
    if yes and no:
        ctx.mark_nontrivial(key or (repr(patterns), repr(exclude), flags))
    # capturing groups
    if toks is not None and len(rinc) == 1:
        r = rinc[0]
        tree = group_tree(toks)
        ctx.count('group_count_checks')
        ctx.evals()
        if r.groups != len(tree):
            ctx.disagree('number of capturing groups differs from the number of extended groups',
                         dict(wit, regex=inc[0], capturing_groups=r.groups, extended_groups=len(tree)))
            return
        # the same pattern translated as an exclusion (exclude=, inline `!`, inline `-`): the same groups, the same captures
        if isinstance(patterns, str) and exclude is None and tree and 'NEGATE' not in fnames and not patterns.startswith(('!', '-')):
            star = '**' if mod is G and ('GLOBSTAR' in fnames) else '*'
            for what, call_ in (('exclude=', lambda: mod.translate(star, flags=flags, exclude=patterns)),
                                ('inline !', lambda: mod.translate([star, '!' + patterns], flags=flags | mod.NEGATE)),
                                ('inline -', lambda: mod.translate([star, '-' + patterns], flags=flags | mod.NEGATE | mod.MINUSNEGATE))):
                if what == 'inline !' and patterns.startswith('('):
                    continue
                try:
                    _i2, e2 = call_()
                    groups = [re.compile(x).groups for x in e2[:1]]
                except Exception as e:  # noqa: BLE001
                    groups = f'raised {type(e).__name__}'
                ctx.count('exclusion_group_count_checks')
                if groups != [len(tree)]:
                    ctx.disagree('an exclusion regex does not hold one capturing group per extended group of its pattern',
                                 dict(wit, spelling=what, capturing_groups=groups, extended_groups=len(tree)))
                    return
        if tree:
            simple = top_level_capture_shape(toks) and 'MATCHBASE' not in fnames
            for n in names:
                mm = r.fullmatch(n)
                if not mm:
                    continue
                # nested captures lie inside their parents (outside negated groups)
                for gi, (kind, parent) in enumerate(tree, 1):
                    anc = parent
                    negated = kind == '!'
                    while anc is not None:
                        # captures of a group inside a repeated ancestor may stem from an earlier iteration
                        # than the ancestor's own last capture (ordinary regex semantics): not asserted
                        if tree[anc][0] in '!*+':
                            negated = True
                        anc = tree[anc][1]
                    if negated or parent is None:
                        continue
                    if mm.group(gi) is not None and mm.group(parent + 1) is not None:
                        ctx.count('nested_capture_checks')
                        ps, pe = mm.span(parent + 1)
                        s, e = mm.span(gi)
                        if not (ps <= s and e <= pe):
                            ctx.disagree('a nested group captures text outside its parent group',
                                         dict(wit, name=n, regex=inc[0], group=gi, span=[s, e], parent=parent + 1, parent_span=[ps, pe]))
                            return
                if simple:
                    # name == interleave(literals, captures)
                    out = []
                    gi = 0
                    ok = True
                    for t in toks:
                        if t[0] == 'grp':
                            idx = [i for i, (_k, p) in enumerate(tree) if p is None][gi]
                            gi += 1
                            cap = mm.group(idx + 1)
                            if cap is None:
                                ok = False
                                break
                            out.append(cap)
                        elif t[0] == 'sep':
                            out.append(None)
                        else:
                            out.append(t[1])
                    if ok:
                        ctx.count('capture_reassembly_checks')
                        ctx.evals()
                        # separators may be written several times in the name: compare piecewise
                        rx = ''.join(('/+' if not ('FORCEWIN' in fnames and 'FORCEUNIX' not in fnames) else r'[\\/]+') if x is None
                                     else re.escape(x) for x in out) + ('/*' if mod is G else '')
                        fl = re.I if (('IGNORECASE' in fnames or ('FORCEWIN' in fnames and 'FORCEUNIX' not in fnames)) and 'CASE' not in fnames) else 0
                        if not re.fullmatch(rx, n, fl | re.S):
                            ctx.disagree('captured texts of the top-level groups do not re-assemble the name',
                                         dict(wit, name=n, regex=inc[0], captures=[x for x in out], groups=list(mm.groups())))
                            return
    if ctx.cases % 300 == 1:
        ctx.sample(dict(wit, inclusion_regexes=inc[:2], exclusion_regexes=exc[:2], names_tried=len(names)))


def run(ctx):
    quick = ctx.quick
    pool = gen.token_pool()
    idx = 0
    for n in (1, 2):
        for toks in gen.enum_sequences(pool, n):
            idx += 1
            if n == 2 and (idx * 2654435761) % 100 >= (3 if quick else 45):
                continue
            if not ctx.mine(idx):
                continue
            if ctx.out_of_time():
                break
            rng = ctx.rng_for('e', idx)
            for path_mode in (False, True):
                fn = ['EXTMATCH'] + flag_choice(rng, path_mode, idx)
                with ctx.case(label=(gen.ser(toks), fn)):
                    check(ctx, G if path_mode else F, gen.ser(toks), None, fn, universe(ctx, toks, rng, path_mode, fn), toks)
    # bracket expressions holding characters that are special to the *regex* layer (and the internal group marker)
    special = [('c', c) for c in '(?#)&|~[^$\\.*+{}-']
    for si in range(len(special)):
        idx += 1
        if not ctx.mine(idx):
            continue
        for width in (1, 2, 4):
            items = tuple(special[(si + j) % len(special)] for j in range(width))
            for neg in (False, True):
                toks = (('lit', 'x'), ('set', neg, items, '!'), ('grp', '@', ((('lit', 'y'),),)))
                for path_mode in (False, True):
                    names = ['x' + it[1] + 'y' for it in special] + ['xy', 'xay', 'x(?#)y']
                    with ctx.case(label=gen.ser(toks)):
                        check(ctx, G if path_mode else F, gen.ser(toks), None, ['EXTMATCH'], names, toks)
                    # the same bracket without a group, with and without EXTMATCH and under other parser modes
                    toks2 = (('lit', 'x'), ('set', neg, items, '!'), ('lit', 'y'))
                    for fl2 in ([], ['EXTMATCH'], ['DOTMATCH'], ['IGNORECASE'], ['FORCEWIN'], ['NEGATE'], ['SPLIT'], ['BRACE']):
                        with ctx.case(label=(gen.ser(toks2), tuple(fl2))):
                            check(ctx, G if path_mode else F, gen.ser(toks2), None, fl2, names, toks2 if not fl2 or fl2 == ['EXTMATCH'] else None)
    # RAWCHARS escapes that spell `|`, `,`, `{`, `}`: both sides decode first, then expand braces and split
    raw_texts = ['a\\x7cb', 'a\\174b', '\\x7ba,b\\x7d', 'a{b\\x2cc}', 'x\\N{VERTICAL LINE}y', '@(a\\x7cb)', 'a\\x7c!b', '\\x7bx,y}', '{x\\x2cy}', 'a\\u007cb',
                 'p\\x7c\\x7cq', '\\x7b1..3\\x7d', 'a\\x5c|b', '[\\x7c]a|b', 'a\\x7c[b', '{a\\x7cb,c}', 'a|\\x7bb,c\\x7d', '!a\\x7cb', '\\x21a|b', 'a\\U0000007cb']
    raw_names = ['a', 'b', 'a|b', 'a,b', '{a,b}', 'ab', 'ac', 'x', 'y', 'x|y', 'a{b,c}', 'abc', 'a|!b', '!b', '{x,y}', 'x,y', 'p', 'q', 'p||q', '1', '2', '3', '{1..3}',
                 'a\\', 'a\\|b', '|a', 'a|[b', '[b', 'c', 'a|b,c', '{a|b,c}', '!a', '!a|b', 'a|{b,c}', 'a|b|c', '']
    for ri, text in enumerate(raw_texts):
        for fi, fl in enumerate((['RAWCHARS', 'SPLIT'], ['RAWCHARS', 'BRACE'], ['RAWCHARS', 'SPLIT', 'BRACE'], ['RAWCHARS', 'SPLIT', 'EXTMATCH'], ['RAWCHARS'],
                                 ['RAWCHARS', 'SPLIT', 'NEGATE'], ['RAWCHARS', 'BRACE', 'SPLIT', 'NEGATE', 'EXTMATCH', 'FORCEWIN'], ['SPLIT', 'BRACE'])):
            idx += 1
            if not ctx.mine(idx):
                continue
            for path_mode in (False, True):
                flx = [('EXTGLOB' if f == 'EXTMATCH' else f) for f in fl] if path_mode else fl
                with ctx.case(label=('raw-structure', text, tuple(flx))):
                    check(ctx, G if path_mode else F, text, None, flx, [n for n in raw_names if n], None)
                    check(ctx, G if path_mode else F, text.encode('latin-1'), None, flx, [n.encode('latin-1') for n in raw_names if n], None) if '\\N' not in text and '\\u' not in text and '\\U' not in text else None
                    check(ctx, G if path_mode else F, ['zz', text], 'q*' if 'NEGATE' not in flx else None, flx, [n for n in raw_names if n], None)
                    ctx.count('rawchars_structure_texts')
    k = 0
    limit = 120 if quick else 10 ** 9
    while k < limit and not ctx.out_of_time():
        k += 1
        rng = ctx.rng_for('r', ctx.shard, k)
        path_mode = bool(k % 2)
        if path_mode:
            toks = gen.rand_path_tokens(rng, maxseg=rng.randint(1, 3), alpha='ab.c', depth=rng.randint(0, 3))
        else:
            toks = gen.rand_tokens(rng, maxtok=rng.randint(1, 7), depth=rng.randint(0, 3), alpha=rng.choice(('ab.c', 'aB.', 'a.(|', 'a\xe9.\u0416\xc9', 'a.\U0001f600\xff')))
        if not toks or gen.ambiguous_adjacency(toks):
            continue
        fn = ['EXTMATCH'] + flag_choice(rng, path_mode, k)
        if gen.count_groups(toks) == 0 and k % 4 == 0:
            fn = fn[1:]       # patterns without extended groups mean the same without EXTMATCH: the other code paths of the parser
        with ctx.case(label=(gen.ser(toks), fn)):
            check(ctx, G if path_mode else F, gen.ser(toks), None, fn, universe(ctx, toks, rng, path_mode, fn), toks)
        # composite
        if k % 1 == 0:
            c = rand_composite(rng, path_mode)
            fn2 = sorted(set(c.flags) | set(flag_choice(rng, path_mode, k)))
            alltoks = tuple(t for _x, ast in (c.inc + c.exc) for t in ast)
            ctx.count('composite_cases')
            with ctx.case(label=c.describe()):
                check(ctx, G if path_mode else F, c.patterns, c.exclude, fn2, universe(ctx, alltoks, rng, path_mode, fn2))
            if c.exclude is None and 'NEGATE' in fn2 and k % 2 == 0:
                # an exclude= argument that is given but empty: whatever it means for inline negation, translate() and the
                # matcher read it the same way
                for empty in ([], '', ()):
                    with ctx.case(label=('empty-exclude', c.describe())):
                        check(ctx, G if path_mode else F, c.patterns, empty, fn2, universe(ctx, alltoks, rng, path_mode, fn2))
    ctx.count('random_asts', k)
    ctx.count('composite_cases', 0)


def replay(ctx, w):
    import random
    mod = G if w['api'].startswith('glob') else F
    pats = w['patterns']
    pats = list(pats) if not isinstance(pats, str) else pats
    exc = list(w['exclude']) if w.get('exclude') is not None else None
    toks = w.get('ast')
    names = [w['name']] if 'name' in w else universe(ctx, toks or (('lit', 'a'),), random.Random(0), mod is G, w['flags'])
    if toks and 'name' in w:
        names += universe(ctx, toks, random.Random(0), mod is G, w['flags'])
    check(ctx, mod, pats, exc, list(w['flags']), names, toks)
    return ctx.violations or None
