"""C20 - RAWCHARS decodes Python-style character escapes and nothing else (DESIGN.md section 5, C20)."""
import itertools
import os
import shutil

from .. import env, rawdecode, refmodel as R, gen
from ..common import F, G
from wcmatch import wcmatch as WM

SPEC = {
    'rule': ('every string up to the length bound over the reduced alphabet `\\ x u N { } 4 1 0 7 a * [ ] /`, and random '
             'compositions of complete/incomplete escape pieces, metacharacters and separators, is matched with RAWCHARS by '
             'the real fnmatch / globmatch / WcMatch (str and bytes, with and without FORCEWIN) and compared, over a name '
             'universe containing the decoded characters, the undecoded spellings and metacharacter-sensitive names, with '
             'the same call on the text produced by an independent left-to-right decoder without RAWCHARS; exception types '
             'must agree with the decoder\'s verdict. Piece compositions also carry their AST meaning with and without '
             'RAWCHARS and are judged by the reference model. Templates with BRACE / SPLIT / NEGATE / extended-group / separator metacharacters written as escapes are run through every entry point (fnmatch, filter, translate, globmatch, globfilter, exclude=, glob, iglob, Path.glob/rglob, PurePath.globmatch, WcMatch file and exclude patterns; str and bytes) and compared with the same call on the plain text without RAWCHARS. A case is one (pattern text, type, mode); it is non-trivial '
             'when the text contains a backslash.'),
    'bounds': {'quick': {'exhaustive_length': 4, 'compositions_per_shard': 250, 'meta_escape_cases_per_shard': 120},
               'thorough': {'exhaustive_length': '5, length 6 sampled (until the time budget)', 'compositions_per_shard': 3000, 'meta_escape_cases_per_shard': 3000}},
    'floor': {'quick': 300000, 'thorough': 3000000},
    'required_counters': ['decode_equivalence_checks', 'syntax_errors_expected_and_seen', 'decoded_patterns',
                          'ast_judged', 'wcmatch_walks', 'meta_escape_checks'],
    'budget': {'quick': 50, 'thorough': 600},
    'shard_timeout': {'quick': 400, 'thorough': 1800},
    'assumptions': ['the decoder in wcverif/rawdecode.py is the meaning C20 assigns to RAWCHARS'],
}

ALPHA = '\\xuN{}4107aA*[]/'
NAMES = ['J', '\xe9', 'x4A', '\x00', '\x07', 'a\x00', '\x008', '0', '00', '7', 'A', 'AA', 'A1', '1', '41', 'x41', 'u0041', 'U00000041', 'N', 'a', 'aa', 'x', 'u', '4', '{', '}', '{}', 'x4',
         '*', '[', ']', '\\', '\\x41', 'A/A', 'a/a', 'A/', '/', 'a/A', '!', '\x04', '\x01', '\t', 'xA', 'Ax', 'N{a}', 'a}',
         '1}', 'x/a', '101', 'u', 'A*', '\\A', 'a\\', '\\\\']


def outcome(fn):
    try:
        return fn()
    except Exception as e:  # noqa: BLE001
        return ('raised', type(e).__name__)


def expected_exception(text, is_bytes):
    try:
        return None, rawdecode.decode(text, is_bytes)
    except (rawdecode.DecodeSyntax, rawdecode.DecodeRange):
        return 'SyntaxError', None
    except rawdecode.DecodeLookup:
        return 'LookupError', None


def names_for(text, dec):
    out = list(NAMES)
    for x in (text, dec, (dec or '').replace('\\', ''), text.replace('\\', '')):
        if x and x not in out:
            out.append(x)
    return out


def check_text(ctx, text, wtree=None):
    for is_bytes in (False, True):
        if is_bytes:
            try:
                text.encode('latin-1')
            except UnicodeEncodeError:
                continue
        exc, dec = expected_exception(text, is_bytes)
        if dec is not None and is_bytes:
            try:
                dec.encode('latin-1')
            except UnicodeEncodeError:
                continue
        names = names_for(text, dec)
        for mode, mod, base in (('fnmatch', F, F.EXTMATCH | F.DOTMATCH), ('glob', G, G.EXTGLOB | G.DOTGLOB),
                                ('glob-win', G, G.FORCEWIN | G.DOTGLOB), ('fnmatch-win', F, F.FORCEWIN | F.DOTMATCH)):
            match = mod.fnmatch if mod is F else mod.globmatch
            comp = mod.compile
            p_raw = text.encode('latin-1') if is_bytes else text
            ctx.mark_nontrivial((text, is_bytes, mode)) if '\\' in text else None
            got_c = outcome(lambda: comp(p_raw, flags=base | mod.RAWCHARS))
            ctx.evals()
            if exc is not None:
                ctx.count('syntax_errors_expected_and_seen' if isinstance(got_c, tuple) else 'syntax_errors_missed')
                ok = isinstance(got_c, tuple) and (
                    got_c[1] == 'SyntaxError' if exc == 'SyntaxError' else got_c[1] in ('KeyError', 'LookupError'))
                if not ok:
                    ctx.disagree(f'RAWCHARS {mode}: expected {exc}, got {got_c if isinstance(got_c, tuple) else "a matcher"}',
                                 {'pattern': text, 'bytes': is_bytes, 'mode': mode, 'expected': exc,
                                  'observed': got_c if isinstance(got_c, tuple) else 'compiled'})
                continue
            p_dec = dec.encode('latin-1') if is_bytes else dec
            ref_c = outcome(lambda: comp(p_dec, flags=base))
            ctx.count('decoded_patterns')
            if isinstance(got_c, tuple) or isinstance(ref_c, tuple):
                if got_c != ref_c and not (isinstance(got_c, tuple) and isinstance(ref_c, tuple)):
                    ctx.disagree(f'RAWCHARS {mode}: compile outcomes differ',
                                 {'pattern': text, 'decoded': dec, 'bytes': is_bytes, 'mode': mode,
                                  'with_rawchars': repr(got_c)[:80], 'decoded_without': repr(ref_c)[:80]})
                continue
            for nm in names:
                n = nm.encode('latin-1') if is_bytes else nm
                a = outcome(lambda: got_c.match(n))
                b = outcome(lambda: ref_c.match(n))
                ctx.evals()
                ctx.count('decode_equivalence_checks')
                if a != b:
                    ctx.disagree(f'RAWCHARS {mode}: match differs from the decoded pattern',
                                 {'pattern': text, 'decoded': dec, 'bytes': is_bytes, 'mode': mode, 'name': nm,
                                  'with_rawchars': a, 'decoded_without': b})
                    break
            # the one-shot function agrees with the compiled matcher
            n0 = names[len(text) % len(names)]
            n0 = n0.encode('latin-1') if is_bytes else n0
            if outcome(lambda: match(n0, p_raw, flags=base | mod.RAWCHARS)) != outcome(lambda: got_c.match(n0)):
                ctx.disagree(f'RAWCHARS {mode}: one-shot call differs from compiled matcher',
                             {'pattern': text, 'bytes': is_bytes, 'mode': mode, 'name': n0})
        if wtree and exc is None and not is_bytes and text and '\x00' not in dec:
            # WcMatch: file pattern with RAWCHARS vs decoded file pattern
            a = outcome(lambda: sorted(WM.WcMatch(wtree, text, flags=WM.RAWCHARS | WM.HIDDEN).match()))
            b = outcome(lambda: sorted(WM.WcMatch(wtree, dec, flags=WM.HIDDEN).match()))
            ctx.count('wcmatch_walks')
            ctx.evals()
            if a != b:
                ctx.disagree('RAWCHARS WcMatch differs from the decoded pattern',
                             {'pattern': text, 'decoded': dec, 'mode': 'WcMatch', 'with_rawchars': repr(a)[:200],
                              'decoded_without': repr(b)[:200]})
            # the folder-exclude pattern is decoded the same way (base-name and path-name form)
            for extra in (0, WM.DIRPATHNAME | WM.FILEPATHNAME):
                a = outcome(lambda: sorted(WM.WcMatch(wtree, '*', text, WM.RAWCHARS | WM.HIDDEN | WM.RECURSIVE | extra).match()))
                b = outcome(lambda: sorted(WM.WcMatch(wtree, '*', dec, WM.HIDDEN | WM.RECURSIVE | extra).match()))
                ctx.count('wcmatch_walks')
                ctx.evals()
                if a != b:
                    ctx.disagree('RAWCHARS WcMatch folder-exclude pattern differs from the decoded pattern',
                                 {'pattern': text, 'decoded': dec, 'mode': 'WcMatch-exclude', 'with_rawchars': repr(a)[:200],
                                  'decoded_without': repr(b)[:200]})


# pieces: (text, AST without RAWCHARS, AST with RAWCHARS (str))
def L(s):
    return tuple(('lit', c) for c in s)


PIECES = [
    ('\\x41', L('x41'), L('A')), ('\\101', L('101'), L('A')), ('\\u0041', L('u0041'), L('A')),
    ('\\U00000041', L('U00000041'), L('A')), ('\\N{DIGIT ONE}', L('N{DIGIT ONE}'), L('1')),
    ('\\t', L('t'), L('\t')), ('\\n', L('n'), L('\n')), ('\\a', L('a'), L('\a')), ('\\\\', L('\\'), L('\\')),
    ('\\x2a', L('x2a'), (('star',),)), ('\\x3f', L('x3f'), (('q',),)), ('\\52', L('52'), (('star',),)),
    ('\\q', L('q'), L('q')), ('\\*', L('*'), L('*')), ('\\?', L('?'), L('?')),
    ('\\x4A', L('x4A'), L('J')), ('\\x4a', L('x4a'), L('J')), ('\\u00E9', L('u00E9'), L('\xe9')), ('\\U0001F600', L('U0001F600'), L('\U0001f600')),
    ('\\x2A', L('x2A'), (('star',),)), ('\\N{LATIN SMALL LETTER A}', L('N{LATIN SMALL LETTER A}'), L('a')), ('\\N{latin small letter a}', L('N{latin small letter a}'), L('a')),
    ('\\0', L('0'), L('\x00')), ('\\00', L('00'), L('\x00')), ('\\000', L('000'), L('\x00')), ('\\7', L('7'), L('\x07')),
    ('\\x00', L('x00'), L('\x00')), ('\\377', L('377'), L('\xff')), ('\\x7f', L('x7f'), L('\x7f')), ('\\08', L('08'), L('\x008')),
    # an escape that decodes to the backslash itself: the decoded backslash escapes what follows
    ('\\x5c*', L('x5c') + (('star',),), L('*')), ('\\134?', L('134') + (('q',),), L('?')), ('\\u005cb', L('u005cb'), L('b')),
    ('\\x5c\\x5c', L('x5cx5c'), L('\\')), ('\\N{REVERSE SOLIDUS}*', L('N{REVERSE SOLIDUS}') + (('star',),), L('*')),
    # names with hyphens and digits
    ('\\N{ZERO WIDTH NON-JOINER}', L('N{ZERO WIDTH NON-JOINER}'), L('\u200c')), ('\\N{CJK UNIFIED IDEOGRAPH-4E00}', L('N{CJK UNIFIED IDEOGRAPH-4E00}'), L('\u4e00')),
    ('\\f', L('f'), L('\f')), ('\\v', L('v'), L('\v')), ('\\r', L('r'), L('\r')), ('\\b', L('b'), L('\b')),
    ('a', L('a'), L('a')), ('1', L('1'), L('1')), ('x', L('x'), L('x')), ('4', L('4'), L('4')),
    ('*', (('star',),), (('star',),)), ('?', (('q',),), (('q',),)),
    ('[\\x41b]', (('set', False, (('c', 'x'), ('c', '4'), ('c', '1'), ('c', 'b'))),),
     (('set', False, (('c', 'A'), ('c', 'b'))),)),
    ('[!\\101]', (('set', True, (('c', '1'), ('c', '0'))),), (('set', True, (('c', 'A'),)),)),
    ('@(\\x41|b)', (('grp', '@', (L('x41'), L('b'))),), (('grp', '@', (L('A'), L('b'))),)),
]


def compose(rng):
    n = rng.randint(1, 6)
    texts, a0, a1 = [], [], []
    prev_star = False
    for _ in range(n):
        t, x, y = rng.choice(PIECES)
        is_star = (y and y[0] == ('star',)) or (x and x[0] == ('star',))
        if is_star and prev_star:
            continue
        prev_star = is_star
        # an octal escape directly followed by an octal digit would change the escape's extent: keep pieces apart
        if texts and texts[-1][-1:].isdigit() and t[:1].isdigit() and '\\' in texts[-1]:
            texts.append('b')
            a0.append(('lit', 'b'))
            a1.append(('lit', 'b'))
        texts.append(t)
        a0.extend(x)
        a1.extend(y)
    return ''.join(texts), tuple(a0), tuple(a1)


def check_composition(ctx, rng, wtree):
    text, ast_off, ast_on = compose(rng)
    if gen.ambiguous_adjacency(ast_off) or gen.ambiguous_adjacency(ast_on) or not text:
        return
    check_text(ctx, text, wtree)
    names, _ = gen.name_universe(ast_on + ast_off, rng, maxlen=3, sigma_cap=5, derivations=6,
                                 extra=[gen.derive(rng, ast_on, 'Aab1') or 'A', gen.derive(rng, ast_off, 'x41ab') or 'x'])
    for raw, ast in ((False, ast_off), (True, ast_on)):
        modes = [(F, F.EXTMATCH | F.DOTMATCH, False), (G, G.EXTGLOB | G.DOTGLOB, False)]
        if '\\\\' not in text:
            # Windows mode (the pattern text is normalised there even without RAWCHARS): same meaning, ASCII case folded;
            # an escaped backslash would be a separator there, such texts are left to C17
            modes += [(F, F.EXTMATCH | F.DOTMATCH | F.FORCEWIN, True), (G, G.EXTGLOB | G.DOTGLOB | G.FORCEWIN, True)]
        for mod, fl, icase in modes:
            m = outcome(lambda: mod.compile(text, flags=fl | (mod.RAWCHARS if raw else 0)))
            if isinstance(m, tuple):
                ctx.disagree('composition of valid pieces failed to compile',
                             {'pattern': text, 'rawchars': raw, 'observed': m})
                continue
            for nm in names:
                if '/' in nm or (icase and ('\\' in nm or not nm.isascii())):
                    continue
                exp = R.seg_match3(ast, nm, True, icase) if mod is F else R.seg3(ast, nm, True, icase, False)
                got = outcome(lambda: m.match(nm))
                ctx.evals()
                ctx.count('ast_judged')
                if exp is not None and got is not exp:
                    fid = None
                    if isinstance(got, bool):
                        from .. import findings
                        fid = (findings.classify_segment(ast, nm, True, icase, got, fn_mode=True) if mod is F
                               else findings.classify_path(ast, nm, R.PathSpec(dot=True, icase=icase), got))
                        if fid is None and mod is G and exp is True and got is False and nm in ('.\n', '..\n') and ast and ast[0][0] != 'lit':
                            # the `.`/`..` guard of a wildcard at a segment start ends in `$`, which also matches before a final
                            # newline: the segment `.\n` looks like `.` to it (same mechanism as in C09's classifier)
                            fid = 'KF-DOLLAR-NEWLINE'
                    ctx.disagree(f'meaning of escapes with RAWCHARS={raw} differs from the AST',
                                 {'pattern': text, 'rawchars': raw, 'name': nm, 'expected': exp, 'observed': got,
                                  'api': mod.__name__, 'forcewin': icase, 'mode': 'composition'}, fid)
                    break
    ctx.mark_nontrivial(('composition', text))
    if ctx.cases % 50 == 0:
        ctx.sample({'composition': text, 'meaning_without_RAWCHARS': gen.ser(ast_off), 'names_tried': len(names)})


# ---- escapes that spell a metacharacter: decoding comes first, then the text is read like any other pattern, in EVERY entry point
META_ESC = {
    '{': ['\\x7b', '\\173', '\\N{LEFT CURLY BRACKET}', '\\u007b', '\\x7B'],
    ',': ['\\x2c', '\\54', '\\N{COMMA}', '\\054'],
    '}': ['\\x7d', '\\175', '\\N{RIGHT CURLY BRACKET}', '\\U0000007d'],
    '|': ['\\x7c', '\\174', '\\N{VERTICAL LINE}', '\\u007C'],
    '!': ['\\x21', '\\41', '\\N{EXCLAMATION MARK}'],
    '-': ['\\x2d', '\\55'],
    '/': ['\\x2f', '\\57', '\\N{SOLIDUS}'],
    '*': ['\\x2a', '\\52', '\\N{ASTERISK}'],
    '(': ['\\x28', '\\50'], ')': ['\\x29', '\\51'], '@': ['\\x40', '\\100'],
    '[': ['\\x5b', '\\133'], ']': ['\\x5d', '\\135'], '.': ['\\x2e', '\\56'], '~': ['\\x7e', '\\176'],
}
META_TEMPLATES = ['{a,b}', 'x{a,b}', '{a,b}|A', 'a|b', '!a', '*|!a', '-a', '@(a|b)', 'd*/f', '{dA,J}/f', '**/f', '[ab]', 'a{1..2}',
                  '{a,b', 'a,b', 'a|', '|a', '{A,{a,b}}', '!(a)', '*(a|b)', 'd[Aa]/f|J/f', '{a,b}/', '*/f|!dA/f', '.|..', '~',
                  'A{,A}', '{d1,da}/{f,g}', '**/{f,g}|a']
META_FLAGSETS = [('BRACE',), ('SPLIT',), ('BRACE', 'SPLIT'), ('NEGATE',), ('NEGATE', 'SPLIT'), ('NEGATE', 'MINUSNEGATE', 'SPLIT'),
                 ('EXTMATCH',), ('EXTMATCH', 'SPLIT', 'BRACE'), ('GLOBSTAR', 'BRACE'), ('GLOBSTAR', 'SPLIT', 'NEGATE'), (),
                 ('NEGATE', 'NEGATEALL', 'BRACE'), ('GLOBTILDE', 'BRACE')]


def spell(rng, template, is_bytes):
    out = []
    for ch in template:
        opts = [o for o in META_ESC.get(ch, ()) if not (is_bytes and o[1] in 'NuU')]
        out.append(rng.choice(opts) if opts and rng.random() < 0.55 else ch)
    return ''.join(out)


def check_meta_escapes(ctx, rng, wtree):
    from ..common import P
    template = rng.choice(META_TEMPLATES)
    fnames = rng.choice(META_FLAGSETS)
    is_bytes = rng.random() < 0.3
    raw = spell(rng, template, is_bytes)
    try:
        if '\\' not in raw or rawdecode.decode(raw, is_bytes) != template:
            return
    except Exception:  # noqa: BLE001
        return
    enc = (lambda x: x.encode('latin-1')) if is_bytes else (lambda x: x)
    root = enc(wtree)
    names = [enc(n) for n in ('a', 'b', 'A', 'AA', 'x', '{a,b}', 'xa', 'xb', 'a|b', 'a,b', '!a', '-a', 'dA/f', 'J/f', 'da/f', 'd1/f', 'a1', 'a2',
                              '(a)', '@(a|b)', 'ab', '.', '..', '~', 'd1/g', 'f', '{a,b', 'a|', '', 'dA/', 'a/', 'b/')]
    names = [n for n in names if n]

    def fl(mod, raw_on):
        v = 0
        for n in fnames:
            n2 = {'EXTMATCH': 'EXTGLOB'}.get(n, n) if mod is G else n
            if mod is F and n in ('GLOBSTAR', 'GLOBTILDE'):
                continue
            v |= getattr(mod, n2, 0) or getattr(mod, n, 0)
        return v | (mod.RAWCHARS if raw_on else 0)

    def fs(fn):
        cwd = os.getcwd()
        os.chdir(wtree)
        try:
            return outcome(fn)
        finally:
            os.chdir(cwd)

    entry = [
        ('fnmatch.filter', lambda t, r: outcome(lambda: F.filter(names, enc(t), flags=fl(F, r)))),
        ('fnmatch.translate', lambda t, r: outcome(lambda: F.translate(enc(t), flags=fl(F, False)) if not r else F.translate(enc(t), flags=fl(F, True)))),
        ('fnmatch.fnmatch', lambda t, r: outcome(lambda: [F.fnmatch(n, enc(t), flags=fl(F, r)) for n in names])),
        ('fnmatch.filter(exclude=)', lambda t, r: outcome(lambda: F.filter(names, enc('*'), flags=fl(F, r), exclude=enc(t)))),
        ('glob.globfilter', lambda t, r: outcome(lambda: G.globfilter(names, enc(t), flags=fl(G, r)))),
        # the escapes sit in a later element of a list / tuple / exclude list
        ('fnmatch.filter([zz, p])', lambda t, r: outcome(lambda: F.filter(names, [enc('zz'), enc(t)], flags=fl(F, r)))),
        ('fnmatch.fnmatch((zz, zy, p))', lambda t, r: outcome(lambda: [F.fnmatch(n, (enc('zz'), enc('zy'), enc(t)), flags=fl(F, r)) for n in names])),
        ('glob.globfilter((zz, p))', lambda t, r: outcome(lambda: G.globfilter(names, (enc('zz'), enc(t)), flags=fl(G, r)))),
        ('glob.compile([zz, p])', lambda t, r: outcome(lambda: [bool(G.compile([enc('zz'), enc(t)], flags=fl(G, r)).match(n)) for n in names])),
        ('fnmatch.translate([zz, p])', lambda t, r: outcome(lambda: F.translate([enc('zz'), enc(t)], flags=fl(F, r)))),
        ('fnmatch.filter(exclude=[zz, p])', lambda t, r: outcome(lambda: F.filter(names, enc('*'), flags=fl(F, r), exclude=[enc('zz'), enc(t)]))),
        ('glob.glob([zz, p])', lambda t, r: outcome(lambda: sorted(G.glob([enc('zz'), enc(t)], flags=fl(G, r), root_dir=root)))),
        ('glob.translate', lambda t, r: outcome(lambda: G.translate(enc(t), flags=fl(G, r)))),
        ('glob.compile', lambda t, r: outcome(lambda: [bool(G.compile(enc(t), flags=fl(G, r)).match(n)) for n in names])),
        ('glob.globmatch(exclude=)', lambda t, r: outcome(lambda: [G.globmatch(n, enc('**'), flags=fl(G, r) | G.GLOBSTAR, exclude=enc(t)) for n in names])),
        ('glob.glob', lambda t, r: outcome(lambda: sorted(G.glob(enc(t), flags=fl(G, r), root_dir=root)))),
        ('glob.iglob(list)', lambda t, r: outcome(lambda: sorted(G.iglob([enc(t), enc('N')], flags=fl(G, r), root_dir=root)))),
        ('glob.glob(exclude=)', lambda t, r: outcome(lambda: sorted(G.glob(enc('*'), flags=fl(G, r), root_dir=root, exclude=enc(t))))),
        ('glob.glob(REALPATH match)', lambda t, r: fs(lambda: [G.globmatch(n, enc(t), flags=fl(G, r) | G.REALPATH) for n in names])),
    ]
    if not is_bytes:
        entry += [
            ('Path.glob', lambda t, r: outcome(lambda: sorted(str(x) for x in P.Path(wtree).glob(t, flags=fl(G, r))))),
            ('Path.rglob', lambda t, r: outcome(lambda: sorted(str(x) for x in P.Path(wtree).rglob(t, flags=fl(G, r))))),
            ('PurePath.globmatch', lambda t, r: outcome(lambda: [P.PurePosixPath(n).globmatch(t, flags=fl(G, r)) for n in names])),
            ('WcMatch(file)', lambda t, r: outcome(lambda: sorted(WM.WcMatch(wtree, t, flags=(WM.RAWCHARS if r else 0) | WM.HIDDEN | WM.RECURSIVE | (WM.BRACE if 'BRACE' in fnames else 0) | (WM.EXTMATCH if 'EXTMATCH' in fnames else 0) | (WM.MINUSNEGATE if 'MINUSNEGATE' in fnames else 0)).match()))),
            ('WcMatch(exclude)', lambda t, r: outcome(lambda: sorted(WM.WcMatch(wtree, '*', t, (WM.RAWCHARS if r else 0) | WM.HIDDEN | WM.RECURSIVE | (WM.BRACE if 'BRACE' in fnames else 0) | (WM.EXTMATCH if 'EXTMATCH' in fnames else 0)).match()))),
        ]
    for label, call in entry:
        a = call(raw, True)
        b = call(template, False)
        ctx.evals()
        ctx.count('meta_escape_checks')
        if a != b:
            ctx.disagree(f'RAWCHARS {label}: an escape spelling a metacharacter is not read like the character itself',
                         {'pattern': raw, 'decoded': template, 'flags': list(fnames), 'bytes': is_bytes, 'entry': label,
                          'with_rawchars': repr(a)[:300], 'decoded_without': repr(b)[:300], 'mode': 'meta-escape'})
    ctx.mark_nontrivial(('meta', raw, fnames, is_bytes))


def make_wtree():
    _base, root = env.mknested('c20-')
    for n in ('A', 'AA', 'x41', 'a', '1', 'u0041', 'A1', '101', 'x', '\t', '\\x41', 'N', '*', 'b', '{a,b}', 'a|b', 'a,b', '!a', '-a', 'xa', 'xb',
              'a1', 'a2', '(a)', '~', '{a,b'):
        open(os.path.join(root, n), 'w').close()
    for dn in ('dA', 'J', 'dx41', 'd1', 'da'):
        os.mkdir(os.path.join(root, dn))
        open(os.path.join(root, dn, 'f'), 'w').close()
    open(os.path.join(root, 'd1', 'g'), 'w').close()
    return root


def run(ctx):
    quick = ctx.quick
    wtree = make_wtree()
    try:
        k = 0
        limit = 250 if quick else 3000
        while k < limit and not ctx.out_of_time():
            k += 1
            rng = ctx.rng_for('comp', ctx.shard, k)
            with ctx.case(label=('composition', k)):
                check_composition(ctx, rng, wtree if k % 3 == 0 else None)
        ctx.count('compositions', k)
        k = 0
        limit = 120 if quick else 3000
        while k < limit and not ctx.out_of_time():
            k += 1
            rng = ctx.rng_for('meta', ctx.shard, k)
            with ctx.case(label=('meta-escape', k)):
                check_meta_escapes(ctx, rng, wtree)
        # the ends of the code-point range and values beyond it (well formed, not decodable: SyntaxError, never another exception)
        for ti, text in enumerate(['\\U%08X' % v for v in (0, 0x41, 0xD7FF, 0xD800, 0xDFFF, 0xE000, 0xFFFF, 0x10000, 0x10FFFF, 0x110000, 0x11FFFF,
                                                            0x1FFFFF, 0x200000, 0xFFFFFF, 0x7FFFFFFF, 0x80000000, 0xFFFFFFFF)] +
                                   ['a\\U00110000b', '[\\U001FFFFF]', '\\U0011000', '\\u%04X' % 0xFFFF, '\\x7f\\U00110000']):
            if not ctx.mine(ti):
                continue
            with ctx.case(label=text):
                check_text(ctx, text, wtree)
            ctx.count('range_end_texts')
        # every one-character escape: the seven letters that denote a control character, and every other printable character
        # behind a backslash (which keeps the meaning it has without RAWCHARS), alone, inside text, in a bracket, in a group
        ti = 0
        for code in range(0x20, 0x7f):
            c = chr(code)
            for text in ('\\' + c, 'x\\' + c + 'y', '[\\' + c + ']', '@(\\' + c + '|b)', '\\' + c + '\\' + c, '[!\\' + c + ']x'):
                ti += 1
                if not ctx.mine(ti):
                    continue
                with ctx.case(label=text):
                    check_text(ctx, text, wtree if code % 8 == 0 else None)
                ctx.count('one_character_escape_texts')
        idx = 0
        plan = [(n, 100) for n in range(1, (4 if quick else 5) + 1)]
        if not quick:
            plan.append((6, 4))
        for n, pct in plan:
            for tup in itertools.product(ALPHA, repeat=n):
                idx += 1
                if pct < 100 and (idx * 2654435761) % 100 >= pct:
                    continue
                if not ctx.mine(idx):
                    continue
                if ctx.out_of_time():
                    break
                text = ''.join(tup)
                with ctx.case(label=text):
                    check_text(ctx, text, wtree if idx % 7 == 0 else None)
                if idx % 20000 == 1:
                    ctx.sample({'pattern': text, 'decoder_says': repr(expected_exception(text, False))})
    finally:
        shutil.rmtree(wtree[:-len('/w/x/y/root')], ignore_errors=True)


def replay(ctx, w):
    wtree = make_wtree()
    try:
        if w.get('mode') == 'composition':
            for k in range(1, 251):
                for sh in range(16):
                    check_composition(ctx, ctx.rng_for('comp', sh, k), None)
                if ctx.violations:
                    break
            return ctx.violations or None
        if w.get('mode') == 'meta-escape':
            for k in range(1, 4000):
                check_meta_escapes(ctx, ctx.rng_for('meta', k % 16, k // 16 + 1), wtree)
                if ctx.violations:
                    break
            return ctx.violations or None
        check_text(ctx, w['pattern'], wtree)
    finally:
        shutil.rmtree(wtree[:-len('/w/x/y/root')], ignore_errors=True)
    return ctx.violations or None
