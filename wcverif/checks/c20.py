"""C20 - RAWCHARS decodes Python-style character escapes and nothing else (DESIGN.md section 5, C20)."""
import itertools
import os
import shutil

from .. import env, rawdecode, refmodel as R, gen
from ..common import F, G
from wcmatch import wcmatch as WM

SPEC = {
    'rule': ('every string up to the length bound over the reduced alphabet `\\ x u N { } 4 1 0 7 a * [ ] /`, and random '
             'compositions of complete/incomplete escape pieces, metacharacters and separators, is matched with RAWCHARS by '
             'the real fnmatch / globmatch / WcMatch (str and bytes, with and without FORCEWIN) and compared, over a name '
             'universe containing the decoded characters, the undecoded spellings and metacharacter-sensitive names, with '
             'the same call on the text produced by an independent left-to-right decoder without RAWCHARS; exception types '
             'must agree with the decoder\'s verdict. Piece compositions also carry their AST meaning with and without '
             'RAWCHARS and are judged by the reference model. A case is one (pattern text, type, mode); it is non-trivial '
             'when the text contains a backslash.'),
    'bounds': {'quick': {'exhaustive_length': 4, 'compositions_per_shard': 250},
               'thorough': {'exhaustive_length': '5, length 6 sampled', 'compositions': 'until the time budget'}},
    'floor': {'quick': 300000, 'thorough': 3000000},
    'required_counters': ['decode_equivalence_checks', 'syntax_errors_expected_and_seen', 'decoded_patterns',
                          'ast_judged', 'wcmatch_walks'],
    'budget': {'quick': 50, 'thorough': 600},
    'shard_timeout': {'quick': 400, 'thorough': 1800},
    'assumptions': ['the decoder in wcverif/rawdecode.py is the meaning C20 assigns to RAWCHARS'],
}

ALPHA = '\\xuN{}4107aA*[]/'
NAMES = ['J', '\xe9', 'x4A', '\x00', '\x07', 'a\x00', '\x008', '0', '00', '7', 'A', 'AA', 'A1', '1', '41', 'x41', 'u0041', 'U00000041', 'N', 'a', 'aa', 'x', 'u', '4', '{', '}', '{}', 'x4',
         '*', '[', ']', '\\', '\\x41', 'A/A', 'a/a', 'A/', '/', 'a/A', '!', '\x04', '\x01', '\t', 'xA', 'Ax', 'N{a}', 'a}',
         '1}', 'x/a', '101', 'u', 'A*', '\\A', 'a\\', '\\\\']


def outcome(fn):
    try:
        return fn()
    except Exception as e:  # noqa: BLE001
        return ('raised', type(e).__name__)


def expected_exception(text, is_bytes):
    try:
        return None, rawdecode.decode(text, is_bytes)
    except (rawdecode.DecodeSyntax, rawdecode.DecodeRange):
        return 'SyntaxError', None
    except rawdecode.DecodeLookup:
        return 'LookupError', None


def names_for(text, dec):
    out = list(NAMES)
    for x in (text, dec, (dec or '').replace('\\', ''), text.replace('\\', '')):
        if x and x not in out:
            out.append(x)
    return out


def check_text(ctx, text, wtree=None):
    for is_bytes in (False, True):
        if is_bytes:
            try:
                text.encode('latin-1')
            except UnicodeEncodeError:
                continue
        exc, dec = expected_exception(text, is_bytes)
        if dec is not None and is_bytes:
            try:
                dec.encode('latin-1')
            except UnicodeEncodeError:
                continue
        names = names_for(text, dec)
        for mode, mod, base in (('fnmatch', F, F.EXTMATCH | F.DOTMATCH), ('glob', G, G.EXTGLOB | G.DOTGLOB),
                                ('glob-win', G, G.FORCEWIN | G.DOTGLOB), ('fnmatch-win', F, F.FORCEWIN | F.DOTMATCH)):
            match = mod.fnmatch if mod is F else mod.globmatch
            comp = mod.compile
            p_raw = text.encode('latin-1') if is_bytes else text
            ctx.mark_nontrivial((text, is_bytes, mode)) if '\\' in text else None
            got_c = outcome(lambda: comp(p_raw, flags=base | mod.RAWCHARS))
            ctx.evals()
            if exc is not None:
                ctx.count('syntax_errors_expected_and_seen' if isinstance(got_c, tuple) else 'syntax_errors_missed')
                ok = isinstance(got_c, tuple) and (
                    got_c[1] == 'SyntaxError' if exc == 'SyntaxError' else got_c[1] in ('KeyError', 'LookupError'))
                if not ok:
                    ctx.disagree(f'RAWCHARS {mode}: expected {exc}, got {got_c if isinstance(got_c, tuple) else "a matcher"}',
                                 {'pattern': text, 'bytes': is_bytes, 'mode': mode, 'expected': exc,
                                  'observed': got_c if isinstance(got_c, tuple) else 'compiled'})
                continue
            p_dec = dec.encode('latin-1') if is_bytes else dec
            ref_c = outcome(lambda: comp(p_dec, flags=base))
            ctx.count('decoded_patterns')
            if isinstance(got_c, tuple) or isinstance(ref_c, tuple):
                if got_c != ref_c and not (isinstance(got_c, tuple) and isinstance(ref_c, tuple)):
                    ctx.disagree(f'RAWCHARS {mode}: compile outcomes differ',
                                 {'pattern': text, 'decoded': dec, 'bytes': is_bytes, 'mode': mode,
                                  'with_rawchars': repr(got_c)[:80], 'decoded_without': repr(ref_c)[:80]})
                continue
            for nm in names:
                n = nm.encode('latin-1') if is_bytes else nm
                a = outcome(lambda: got_c.match(n))
                b = outcome(lambda: ref_c.match(n))
                ctx.evals()
                ctx.count('decode_equivalence_checks')
                if a != b:
                    ctx.disagree(f'RAWCHARS {mode}: match differs from the decoded pattern',
                                 {'pattern': text, 'decoded': dec, 'bytes': is_bytes, 'mode': mode, 'name': nm,
                                  'with_rawchars': a, 'decoded_without': b})
                    break
            # the one-shot function agrees with the compiled matcher
            n0 = names[len(text) % len(names)]
            n0 = n0.encode('latin-1') if is_bytes else n0
            if outcome(lambda: match(n0, p_raw, flags=base | mod.RAWCHARS)) != outcome(lambda: got_c.match(n0)):
                ctx.disagree(f'RAWCHARS {mode}: one-shot call differs from compiled matcher',
                             {'pattern': text, 'bytes': is_bytes, 'mode': mode, 'name': n0})
        if wtree and exc is None and not is_bytes and text and '\x00' not in dec:
            # WcMatch: file pattern with RAWCHARS vs decoded file pattern
            a = outcome(lambda: sorted(WM.WcMatch(wtree, text, flags=WM.RAWCHARS | WM.HIDDEN).match()))
            b = outcome(lambda: sorted(WM.WcMatch(wtree, dec, flags=WM.HIDDEN).match()))
            ctx.count('wcmatch_walks')
            ctx.evals()
            if a != b:
                ctx.disagree('RAWCHARS WcMatch differs from the decoded pattern',
                             {'pattern': text, 'decoded': dec, 'mode': 'WcMatch', 'with_rawchars': repr(a)[:200],
                              'decoded_without': repr(b)[:200]})
            # the folder-exclude pattern is decoded the same way (base-name and path-name form)
            for extra in (0, WM.DIRPATHNAME | WM.FILEPATHNAME):
                a = outcome(lambda: sorted(WM.WcMatch(wtree, '*', text, WM.RAWCHARS | WM.HIDDEN | WM.RECURSIVE | extra).match()))
                b = outcome(lambda: sorted(WM.WcMatch(wtree, '*', dec, WM.HIDDEN | WM.RECURSIVE | extra).match()))
                ctx.count('wcmatch_walks')
                ctx.evals()
                if a != b:
                    ctx.disagree('RAWCHARS WcMatch folder-exclude pattern differs from the decoded pattern',
                                 {'pattern': text, 'decoded': dec, 'mode': 'WcMatch-exclude', 'with_rawchars': repr(a)[:200],
                                  'decoded_without': repr(b)[:200]})


# pieces: (text, AST without RAWCHARS, AST with RAWCHARS (str))
def L(s):
    return tuple(('lit', c) for c in s)


PIECES = [
    ('\\x41', L('x41'), L('A')), ('\\101', L('101'), L('A')), ('\\u0041', L('u0041'), L('A')),
    ('\\U00000041', L('U00000041'), L('A')), ('\\N{DIGIT ONE}', L('N{DIGIT ONE}'), L('1')),
    ('\\t', L('t'), L('\t')), ('\\n', L('n'), L('\n')), ('\\a', L('a'), L('\a')), ('\\\\', L('\\'), L('\\')),
    ('\\x2a', L('x2a'), (('star',),)), ('\\x3f', L('x3f'), (('q',),)), ('\\52', L('52'), (('star',),)),
    ('\\q', L('q'), L('q')), ('\\*', L('*'), L('*')), ('\\?', L('?'), L('?')),
    ('\\x4A', L('x4A'), L('J')), ('\\x4a', L('x4a'), L('J')), ('\\u00E9', L('u00E9'), L('\xe9')), ('\\U0001F600', L('U0001F600'), L('\U0001f600')),
    ('\\x2A', L('x2A'), (('star',),)), ('\\N{LATIN SMALL LETTER A}', L('N{LATIN SMALL LETTER A}'), L('a')), ('\\N{latin small letter a}', L('N{latin small letter a}'), L('a')),
    ('\\0', L('0'), L('\x00')), ('\\00', L('00'), L('\x00')), ('\\000', L('000'), L('\x00')), ('\\7', L('7'), L('\x07')),
    ('\\x00', L('x00'), L('\x00')), ('\\377', L('377'), L('\xff')), ('\\x7f', L('x7f'), L('\x7f')), ('\\08', L('08'), L('\x008')),
    ('a', L('a'), L('a')), ('1', L('1'), L('1')), ('x', L('x'), L('x')), ('4', L('4'), L('4')),
    ('*', (('star',),), (('star',),)), ('?', (('q',),), (('q',),)),
    ('[\\x41b]', (('set', False, (('c', 'x'), ('c', '4'), ('c', '1'), ('c', 'b'))),),
     (('set', False, (('c', 'A'), ('c', 'b'))),)),
    ('[!\\101]', (('set', True, (('c', '1'), ('c', '0'))),), (('set', True, (('c', 'A'),)),)),
    ('@(\\x41|b)', (('grp', '@', (L('x41'), L('b'))),), (('grp', '@', (L('A'), L('b'))),)),
]


def compose(rng):
    n = rng.randint(1, 6)
    texts, a0, a1 = [], [], []
    prev_star = False
    for _ in range(n):
        t, x, y = rng.choice(PIECES)
        is_star = (y and y[0] == ('star',)) or (x and x[0] == ('star',))
        if is_star and prev_star:
            continue
        prev_star = is_star
        # an octal escape directly followed by an octal digit would change the escape's extent: keep pieces apart
        if texts and texts[-1][-1:].isdigit() and t[:1].isdigit() and '\\' in texts[-1]:
            texts.append('b')
            a0.append(('lit', 'b'))
            a1.append(('lit', 'b'))
        texts.append(t)
        a0.extend(x)
        a1.extend(y)
    return ''.join(texts), tuple(a0), tuple(a1)


def check_composition(ctx, rng, wtree):
    text, ast_off, ast_on = compose(rng)
    if gen.ambiguous_adjacency(ast_off) or gen.ambiguous_adjacency(ast_on) or not text:
        return
    check_text(ctx, text, wtree)
    names, _ = gen.name_universe(ast_on + ast_off, rng, maxlen=3, sigma_cap=5, derivations=6,
                                 extra=[gen.derive(rng, ast_on, 'Aab1') or 'A', gen.derive(rng, ast_off, 'x41ab') or 'x'])
    for raw, ast in ((False, ast_off), (True, ast_on)):
        for mod, fl in ((F, F.EXTMATCH | F.DOTMATCH), (G, G.EXTGLOB | G.DOTGLOB)):
            m = outcome(lambda: mod.compile(text, flags=fl | (mod.RAWCHARS if raw else 0)))
            if isinstance(m, tuple):
                ctx.disagree('composition of valid pieces failed to compile',
                             {'pattern': text, 'rawchars': raw, 'observed': m})
                continue
            for nm in names:
                if '/' in nm:
                    continue
                exp = R.seg_match3(ast, nm, True) if mod is F else R.seg3(ast, nm, True, False, False)
                got = outcome(lambda: m.match(nm))
                ctx.evals()
                ctx.count('ast_judged')
                if exp is not None and got is not exp:
                    ctx.disagree(f'meaning of escapes with RAWCHARS={raw} differs from the AST',
                                 {'pattern': text, 'rawchars': raw, 'name': nm, 'expected': exp, 'observed': got,
                                  'api': mod.__name__})
                    break
    ctx.mark_nontrivial(('composition', text))
    if ctx.cases % 50 == 0:
        ctx.sample({'composition': text, 'meaning_without_RAWCHARS': gen.ser(ast_off), 'names_tried': len(names)})


def make_wtree():
    _base, root = env.mknested('c20-')
    for n in ('A', 'AA', 'x41', 'a', '1', 'u0041', 'A1', '101', 'x', '\t', '\\x41', 'N', '*'):
        open(os.path.join(root, n), 'w').close()
    for dn in ('dA', 'J', 'dx41', 'd1', 'da'):
        os.mkdir(os.path.join(root, dn))
        open(os.path.join(root, dn, 'f'), 'w').close()
    return root


def run(ctx):
    quick = ctx.quick
    wtree = make_wtree()
    try:
        idx = 0
        plan = [(n, 100) for n in range(1, (4 if quick else 5) + 1)]
        if not quick:
            plan.append((6, 4))
        for n, pct in plan:
            for tup in itertools.product(ALPHA, repeat=n):
                idx += 1
                if pct < 100 and (idx * 2654435761) % 100 >= pct:
                    continue
                if not ctx.mine(idx):
                    continue
                if ctx.out_of_time():
                    break
                text = ''.join(tup)
                with ctx.case(label=text):
                    check_text(ctx, text, wtree if idx % 7 == 0 else None)
                if idx % 20000 == 1:
                    ctx.sample({'pattern': text, 'decoder_says': repr(expected_exception(text, False))})
        k = 0
        limit = 250 if quick else 10 ** 9
        while k < limit and not ctx.out_of_time():
            k += 1
            rng = ctx.rng_for('comp', ctx.shard, k)
            with ctx.case(label=('composition', k)):
                check_composition(ctx, rng, wtree if k % 3 == 0 else None)
        ctx.count('compositions', k)
    finally:
        shutil.rmtree(wtree[:-len('/w/x/y/root')], ignore_errors=True)


def replay(ctx, w):
    wtree = make_wtree()
    try:
        check_text(ctx, w['pattern'], wtree)
    finally:
        shutil.rmtree(wtree[:-len('/w/x/y/root')], ignore_errors=True)
    return ctx.violations or None
