"""C01 - file-name matching follows the documented wildcard language (DESIGN.md section 5, C01)."""
from .. import gen, refmodel as R, findings
from ..common import F, flags_of, names_of, shape, foreign_bits, FNMATCH_FLAG_NAMES

FOREIGN = foreign_bits(FNMATCH_FLAG_NAMES)
ALL_FOREIGN = 0
for _b in FOREIGN:
    ALL_FOREIGN |= _b

SPEC = {
    'rule': ('patterns are ASTs (bounded-exhaustive token sequences over 7 atoms + 225 depth-1 extended groups, then '
             'random ASTs up to depth 3 / 8 tokens, `!()` only inside the fragment C01 states) serialised to text and '
             'run through the real fnmatch.compile(...).match / fnmatch.fnmatch / fnmatch.filter; every name of a '
             'per-pattern universe (all strings up to the length bound over the pattern\'s own alphabet + a fresh letter + '
             '`.`, plus names derived from the AST and their one-edit mutants) is compared with the three-valued '
             'reference model; names beginning with `.` are skipped unless DOTMATCH (C03). A case is one (pattern, '
             'flag set); it is non-trivial when its universe contained at least one must-match and one must-not name.'),
    'bounds': {
        'quick': {'enumerated_token_length': '1 exhaustive, 2 sampled 6%', 'name_length': 4, 'sigma_cap': 5,
                  'random_asts_per_shard': 120},
        'thorough': {'enumerated_token_length': '1-2 exhaustive, 3 sampled', 'name_length': 5, 'sigma_cap': 5,
                     'random_asts': 'until the per-shard time budget (540 s)'},
    },
    'floor': {'quick': 200000, 'thorough': 2000000},
    'required_counters': ['must_match', 'must_not_match', 'api_consistency_checks', 'posix_class_evaluations', 'bracket_templates'],
    'budget': {'quick': 45, 'thorough': 540},
    'shard_timeout': {'quick': 400, 'thorough': 1500},
    'assumptions': [
        'the reference model (wcverif/refmodel.py) is a faithful reading of docs/src/markdown/fnmatch.md and of C01',
        'names longer than the bound are reached only through AST-derived samples',
        '`!()` outside the fragment stated by C01 is not asserted on',
    ],
}

CASEMODES = ((), ('IGNORECASE',), ('CASE', 'IGNORECASE'))


def flagsets(idx):
    """Two flag sets per pattern: DOTMATCH off and on; case mode / FORCEUNIX rotate with the pattern index."""
    case = CASEMODES[idx % 3]
    unix = ('FORCEUNIX',) if (idx // 3) % 2 else ()
    for dot in ((), ('DOTMATCH',)):
        yield ('EXTMATCH',) + dot + case + unix


def S(neg, *items):
    return ('set', neg, tuple(items), '!')


# bracket expressions whose spelling the serialiser never produces: unescaped hyphens in the positions where the
# documentation gives them a meaning (first, last, right after a range), escaped range end points, `]` first
BRACKET_TEMPLATES = [
    ('[a-\\c-b]', S(False, ('r', 'a', 'c'), ('c', '-'), ('c', 'b'))),
    ('[a-c-b]', S(False, ('r', 'a', 'c'), ('c', '-'), ('c', 'b'))),
    ('[c-\\z-ba]', S(False, ('r', 'c', 'z'), ('c', '-'), ('c', 'b'), ('c', 'a'))),
    ('[\\a-c-e]', S(False, ('r', 'a', 'c'), ('c', '-'), ('c', 'e'))),
    ('[a-\\c-\\e]', S(False, ('r', 'a', 'c'), ('c', '-'), ('c', 'e'))),
    ('[!a-\\c-b]', S(True, ('r', 'a', 'c'), ('c', '-'), ('c', 'b'))),
    ('[a-\\cd-f]', S(False, ('r', 'a', 'c'), ('r', 'd', 'f'))),
    ('[-a]', S(False, ('c', '-'), ('c', 'a'))), ('[a-]', S(False, ('c', 'a'), ('c', '-'))),
    ('[!-a]', S(True, ('c', '-'), ('c', 'a'))), ('[]a]', S(False, ('c', ']'), ('c', 'a'))),
    ('[!]a]', S(True, ('c', ']'), ('c', 'a'))), ('[]-a]', S(False, ('r', ']', 'a'))),
    ('[+--]', S(False, ('r', '+', '-'))), ('[--0]', S(False, ('r', '-', '0'))),
    ('[a-c[:digit:]-z]', S(False, ('r', 'a', 'c'), ('p', 'digit'), ('c', '-'), ('c', 'z'))),
    ('[[:digit:]-a]', S(False, ('p', 'digit'), ('c', '-'), ('c', 'a'))),
    ('[\\]-a]', S(False, ('r', ']', 'a'))), ('[a\\-c]', S(False, ('c', 'a'), ('c', '-'), ('c', 'c'))),
    ('[a-\\-]', S(False)),   # reversed range a..-  : matches nothing
    # every range reversed: nothing / (negated) any one character, whatever its code point
    ('[z-a]', S(False)), ('[!z-a]', S(True)), ('[^9-0c-a]', S(True)), ('[9-0c-a]', S(False)),
    # a hyphen between a member and a POSIX class is a member itself; what follows the class is unaffected by it
    ('[z-[:digit:]!]', S(False, ('c', 'z'), ('c', '-'), ('p', 'digit'), ('c', '!'))),
    ('[z-[:digit:]a]', S(False, ('c', 'z'), ('c', '-'), ('p', 'digit'), ('c', 'a'))),
    ('[!z-[:digit:]+]', S(True, ('c', 'z'), ('c', '-'), ('p', 'digit'), ('c', '+'))),
    ('[b-[:upper:]a-c]', S(False, ('c', 'b'), ('c', '-'), ('p', 'upper'), ('r', 'a', 'c'))),
    ('[[:digit:]a-f]', S(False, ('p', 'digit'), ('r', 'a', 'f'))),
    ('[![:digit:]a-f]', S(True, ('p', 'digit'), ('r', 'a', 'f'))),
    ('[a-c[:digit:]x-z]', S(False, ('r', 'a', 'c'), ('p', 'digit'), ('r', 'x', 'z'))),
    # the separator is an ordinary member in file-name mode, escaped or not
    ('[a\\/]', S(False, ('c', 'a'), ('c', '/'))), ('[!\\/]', S(True, ('c', '/'))), ('[+-\\/]', S(False, ('r', '+', '/'))),
    ('[[:digit:]\\/]', S(False, ('p', 'digit'), ('c', '/'))), ('[a/]', S(False, ('c', 'a'), ('c', '/'))), ('[/-9]', S(False, ('r', '/', '9'))),
    # a range that ends in a hyphen, followed by another range / a member / a hyphen
    ('[+--b-d]', S(False, ('r', '+', '-'), ('r', 'b', 'd'))), ('[!+--b-d]', S(True, ('r', '+', '-'), ('r', 'b', 'd'))),
    ('[+--ab-d]', S(False, ('r', '+', '-'), ('c', 'a'), ('r', 'b', 'd'))),
    ('[+---a]', S(False, ('r', '+', '-'), ('c', '-'), ('c', 'a'))),
    ('[+-\\-b-d]', S(False, ('r', '+', '-'), ('r', 'b', 'd'))),
    ('[a-cd-fz]', S(False, ('r', 'a', 'c'), ('r', 'd', 'f'), ('c', 'z'))),
    ('[a-c0-5-z]', S(False, ('r', 'a', 'c'), ('r', '0', '5'), ('c', '-'), ('c', 'z'))),
]


def check_pattern(ctx, toks, fnames, names, api_sample=False, noescape=(), text=None):
    pat = gen.ser(toks, noescape) if text is None else text
    flags = flags_of(fnames)
    dot = 'DOTMATCH' in fnames
    icase = 'IGNORECASE' in fnames and 'CASE' not in fnames
    try:
        m = F.compile(pat, flags=flags)
    except Exception as e:  # noqa: BLE001
        ctx.evals()
        ctx.disagree(f'compile raised {type(e).__name__}|{shape(toks)}',
                     {'api': 'fnmatch.compile', 'ast': toks, 'pattern': pat, 'flags': names_of(flags),
                      'exception': repr(e), 'noescape': ''.join(noescape)})
        return
    n_yes = n_no = 0
    got_all = []
    for name in names:
        if not dot and name.startswith('.'):
            continue
        exp = R.seg_match3(toks, name, dot, icase)
        try:
            got = m.match(name)
        except Exception as e:  # noqa: BLE001
            got = f'raised {type(e).__name__}'
        got_all.append((name, got))
        ctx.evals()
        if exp is None:
            ctx.count('dont_care')
            continue
        if exp:
            n_yes += 1
        else:
            n_no += 1
        if got is not exp:
            fid = findings.classify_segment(toks, name, dot, icase, got, fn_mode=True) if isinstance(got, bool) else None
            ctx.disagree(f'fnmatch expected {exp} got {got}|{shape(toks)}',
                         {'api': 'fnmatch.compile().match', 'ast': toks, 'pattern': pat, 'flags': names_of(flags),
                          'name': name, 'expected': exp, 'observed': got, 'noescape': ''.join(noescape)}, fid)
    ctx.count('must_match', n_yes)
    ctx.count('must_not_match', n_no)
    if n_yes and n_no:
        ctx.mark_nontrivial((pat, flags))
    if api_sample and got_all:
        # the three entry points are one relation
        sel = [n for n, _ in got_all]
        want = [n for n, g in got_all if g is True]
        try:
            flt = F.filter(sel, pat, flags=flags)
            mflt = m.filter(sel)
            singles = [n for n in sel[:40] if F.fnmatch(n, pat, flags=flags)]
        except Exception as e:  # noqa: BLE001
            flt = mflt = singles = f'raised {type(e).__name__}'
        # bits that are no fnmatch flag (glob's, WcMatch's, internal ones, unused ones) are ignored
        fb = FOREIGN[(len(pat) + len(sel)) % len(FOREIGN)]
        try:
            ff = [n for n in sel[:40] if F.fnmatch(n, pat, flags=flags | fb)]
            fa = F.filter(sel[:40], pat, flags=flags | ALL_FOREIGN)
            ft = (F.translate(pat, flags=flags | fb), F.translate(pat, flags=flags | ALL_FOREIGN))
            t0 = F.translate(pat, flags=flags)
        except Exception as e:  # noqa: BLE001
            ff = fa = f'raised {type(e).__name__}'
            ft, t0 = None, None
        ctx.count('foreign_flag_bit_checks')
        if not isinstance(singles, str) and (ff != singles or fa != singles or ft != (t0, t0)):
            ctx.disagree(f'a flag bit that is no fnmatch flag changes the answer|{shape(toks)}',
                         {'api': 'fnmatch.fnmatch / filter / translate', 'ast': toks, 'pattern': pat, 'flags': names_of(flags), 'foreign_bit': hex(fb),
                          'names': sel[:40], 'without': singles if isinstance(singles, str) else singles[:20], 'with_bit': ff if isinstance(ff, str) else ff[:20],
                          'with_all_foreign_bits': fa if isinstance(fa, str) else fa[:20], 'noescape': ''.join(noescape)})
        ctx.count('api_consistency_checks', 3)
        ctx.evals(3)
        if flt != want or mflt != want or singles != [n for n in want if n in sel[:40]]:
            ctx.disagree(f'filter/fnmatch/compile disagree|{shape(toks)}',
                         {'api': 'fnmatch.filter', 'ast': toks, 'pattern': pat, 'flags': names_of(flags),
                          'names': sel[:60], 'compiled_match': want[:60],
                          'filter': flt[:60] if isinstance(flt, list) else flt,
                          'noescape': ''.join(noescape)})
    if ctx.cases % 500 == 1:
        ctx.sample({'pattern': pat, 'flags': names_of(flags), 'names_tried': len(got_all),
                    'must_match': n_yes, 'must_not': n_no, 'example_names': [n for n, _ in got_all[:6]]})


def universe(ctx, toks, key, maxlen, icase, extra=()):
    rng = ctx.rng_for('names', key)
    ex = list(extra)
    if icase:
        ex += [c.swapcase() for c in gen.pattern_chars(toks) if c.isalpha()]
    names, alpha = gen.name_universe(toks, rng, maxlen=maxlen, sigma_cap=5, extra=ex, icase=icase,
                                     fresh='C' if icase else 'c')
    # a small class of names ending in a newline (`$` inside look-aheads)
    for _ in range(3):
        d = gen.derive(rng, toks, alpha, icase=icase)
        if d is not None and '/' not in d:
            names.append(d + '\n')
    names.append('a\n')
    # in file-name mode the separator is an ordinary character: names that hold one (after a derived name, before it, inside it)
    for _ in range(3):
        d = gen.derive(rng, toks, alpha, icase=icase)
        if d:
            names += [d + '/b', d + '/', '/' + d, d[:1] + '/' + d[1:]]
    names += ['a/b', '/', 'a/']
    return list(dict.fromkeys(names))


def posix_sweep(ctx):
    """Every POSIX class x {plain, negated} x every character 0..255 and some above."""
    chars = [chr(i) for i in range(256)] + [chr(i) for i in (0x100, 0x17f, 0x3b1, 0x416, 0x5d0, 0x660, 0x2000, 0x2028,
                                                              0x3042, 0xff21, 0xff10, 0x1d7d8, 0x1f600, 0x10ffff,
                                                              0xe000, 0x0131, 0x212a, 0xb5, 0xdf, 0x130)]
    flags = flags_of(('DOTMATCH',))
    n = 0
    for ci, cls in enumerate(R.POSIX_NAMES):
        if not ctx.mine(ci):
            continue
        for neg in (False, True):
            tok = ('set', neg, (('p', cls),), '^' if ci % 2 else '!')
            pat = gen.ser((tok,))
            m = F.compile(pat, flags=flags)
            y = 0
            for c in chars:
                exp = (c in R.POSIX[cls]) != neg
                got = m.match(c)
                n += 1
                y += exp
                if got is not exp:
                    ctx.disagree(f'posix class table {cls} neg={neg}',
                                 {'api': 'fnmatch.compile().match', 'ast': (tok,), 'pattern': pat,
                                  'flags': names_of(flags), 'name': c, 'codepoint': ord(c), 'expected': exp,
                                  'observed': got, 'noescape': ''})
            ctx.mark_nontrivial((pat, flags))
    ctx.evals(n)
    ctx.count('posix_class_evaluations', n)


def noext_patterns(rng):
    """EXTMATCH off: `( ) | + @ !` are plain characters (written unescaped)."""
    plain = '()|+@!'
    toks = []
    for _ in range(rng.randint(1, 6)):
        r = rng.random()
        if r < 0.45:
            toks.append(('lit', rng.choice(plain)))
        elif r < 0.65:
            toks.append(('lit', rng.choice('ab.')))
        elif r < 0.8:
            toks.append(('q',))
        elif r < 0.9:
            if not toks or toks[-1][0] != 'star':
                toks.append(('star',))
        else:
            toks.append(('set', rng.random() < 0.4, (('c', rng.choice('a(|)')),), '!'))
    return tuple(toks)


def run(ctx):
    quick = ctx.quick
    maxlen = 4 if quick else 5
    posix_sweep(ctx)
    pool = gen.token_pool()
    idx = 0
    # ---- bounded-exhaustive -------------------------------------------------------------
    for n in (1, 2) if quick else (1, 2, 3):
        for toks in gen.enum_sequences(pool, n):
            idx += 1
            if n == 2 and quick and (idx * 2654435761) % 100 >= 6:
                continue
            if n == 3 and (idx * 2654435761) % 10000 >= 25:
                continue
            if not ctx.mine(idx):
                continue
            if not gen.in_fragment(toks):
                continue
            if n == 3 and ctx.out_of_time():
                break
            for fnames in flagsets(idx):
                icase = 'IGNORECASE' in fnames and 'CASE' not in fnames
                names = universe(ctx, toks, idx, maxlen if n < 3 else 4, icase)
                with ctx.case(label=(gen.ser(toks), fnames)):
                    check_pattern(ctx, toks, fnames, names, api_sample=(idx % 20 == 0))
    ctx.count('enumerated_patterns_seen', idx)
    # ---- bracket templates -----------------------------------------------------------------------
    for bi, (btext, bset) in enumerate(BRACKET_TEMPLATES):
        if not ctx.mine(bi):
            continue
        for pre, post in (((), ()), ((('lit', 'x'),), ()), ((), (('star',),)), ((('grp', '@', ((('lit', 'x'),), ())),), (('lit', 'y'),))):
            toks = pre + ((bset,) if bset[2] else (('set', bset[1], (('r', 'b', 'a'),), '!'),)) + post
            text = gen.ser(pre) + btext + gen.ser(post)
            for fnames in flagsets(bi):
                names = ['a', 'b', 'c', 'd', 'e', 'f', 'z', '-', ']', '+', ',', '0', '5', '\\', 'A', 'C', '.', '^', '!', '/', 'a]', '/]', '[]', '[/]', '\u0100', '\u2603', '\U0001f600', '\xff']
                names = [gen.derive(ctx.rng_for('bt', bi), pre, 'x') + n + (gen.derive(ctx.rng_for('bt2', bi), post, 'xy') or '') for n in names] + ['x', 'xy', 'y']
                with ctx.case(label=(text, fnames)):
                    check_pattern(ctx, toks, fnames, [n for n in names if n], api_sample=True, text=text)
                ctx.count('bracket_templates')
    # ---- two stars in front of a list, at the start of an alternative of an enclosing list ---------------
    L2 = lambda x: tuple(('lit', c) for c in x)  # noqa: E731
    inner = (('star',), ('grp', '*', (L2('b'),)))
    si2 = 0
    for outer_kind in '@+*?!':
        for alts in ((inner,), (L2('a'), inner), (inner, L2('c')), (inner + L2('c'),), (L2('a') + inner,)):
            for post in ((), L2('c'), (('star',),)):
                si2 += 1
                if not ctx.mine(si2):
                    continue
                toks = (('grp', outer_kind, alts),) + post
                if not gen.in_fragment(toks):
                    continue
                for fnames in flagsets(si2):
                    names = ['a', 'abb', 'b', 'bb', 'xb', 'c', 'bc', 'xbc', '(b)', '*(b)', 'x(b))', ')', 'ac', 'ab', 'abc', 'xyz', 'a)', '(b))c', 'bbc', 'xc']
                    with ctx.case(label=(gen.ser(toks), fnames)):
                        check_pattern(ctx, toks, fnames, names, api_sample=True)
                    ctx.count('nested_double_star_templates')
    # ---- a separator written in a file-name pattern is an ordinary character -----------------------
    L = lambda x: tuple(('lit', c) for c in x)  # noqa: E731
    after = [(('star',),), (('star',), ('star',)), (('q',), ('lit', 'b')), (('set', True, (('c', 'x'),), '!'), ('lit', 'b')),
             (('set', False, (('c', '.'),), '!'), ('lit', 'b')), (('grp', '!', (L('b'),)),), (('grp', '@', ((('star',),), L('c'))),),
             (('grp', '+', ((('q',),),)),), (('grp', '*', (L('b'), L('.'))),), (('grp', '?', (L('.b'),)), ('star',)), (('star',), ('lit', '/'), ('star',))]
    si = 0
    for pre in (L('a'), (), (('star',),), L('.a'), (('grp', '@', (L('a'),)),)):
        for sl in (L('/'), L('//'), (('grp', '@', (L('/'),)),)):
            for aft in after:
                si += 1
                if not ctx.mine(si):
                    continue
                toks = pre + sl + aft
                if gen.ambiguous_adjacency(toks):
                    continue
                for fnames in flagsets(si):
                    names = ['a/', 'a/b', 'a/.b', 'a/.c', 'a/c', 'a/.', 'a/..', '/', '/b', '/.b', '//', 'a//b', 'a//.b', 'a//', '.a/b', '.a/.b', '.a/',
                             'a/b/c', 'a/b/.c', 'a/.b/c', 'x/.b', 'x/', 'a', 'ab', 'a/bb', 'a/xb', 'a/\nb', '/.', 'a/.bb', 'a/..b']
                    with ctx.case(label=(gen.ser(toks), fnames)):
                        check_pattern(ctx, toks, fnames, names, api_sample=True)
                    ctx.count('slash_templates')
    # ---- EXTMATCH off ------------------------------------------------------------------
    for k in range(60 if quick else 600):
        if not ctx.mine(k):
            continue
        rng = ctx.rng_for('noext', k)
        toks = noext_patterns(rng)
        for dotf in ((), ('DOTMATCH',)):
            names = universe(ctx, toks, ('noext', k), 4, False, extra=('(a)', 'a|b', '+(a)', '!(a)', '@(a)b'))
            with ctx.case():
                check_pattern(ctx, toks, dotf + CASEMODES[k % 3], names, api_sample=(k % 10 == 0),
                              noescape=frozenset('()|+@!'))
    # ---- random deeper ASTs ------------------------------------------------------------
    k = 0
    limit = 120 if quick else 10 ** 9
    while k < limit and not ctx.out_of_time():
        k += 1
        rng = ctx.rng_for('rand', ctx.shard, k)
        alpha = rng.choice(('ab.c', 'ab.', 'aB.x', 'a-]!', 'a.(|', 'a\xe9.\u0416', 'a.\U0001f600\xff', 'a^$#', 'a+{}', 'a&~=:'))
        # characters that mean something in regular expressions but nothing in a wildcard pattern, written unescaped
        noesc = frozenset('+{}') if alpha == 'a+{}' else frozenset()
        toks = gen.make_fragment(gen.rand_tokens(rng, maxtok=rng.randint(1, 8), depth=rng.randint(0, 3), alpha=alpha), rng)
        if not toks or gen.ambiguous_adjacency(toks) or not gen.in_fragment(toks):
            continue
        for fnames in flagsets(k):
            icase = 'IGNORECASE' in fnames and 'CASE' not in fnames
            if icase and not alpha.isascii():
                continue    # the property speaks of ASCII case only: non-ASCII letters are exercised in case-sensitive mode
            names = universe(ctx, toks, ('rand', ctx.shard, k), 4, icase)
            with ctx.case(label=(gen.ser(toks, noesc), fnames)):
                check_pattern(ctx, toks, fnames, names, api_sample=(k % 10 == 0), noescape=noesc)
    ctx.count('random_asts', k)


def replay(ctx, w):
    toks = w['ast']
    noescape = frozenset(w.get('noescape') or '')
    fnames = tuple(w['flags'])
    names = [w['name']] if 'name' in w else list(w.get('names', ()))
    check_pattern(ctx, toks, fnames, names, api_sample='names' in w, noescape=noescape, text=w.get('pattern'))
    return ctx.violations or None
