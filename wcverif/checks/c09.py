"""C09 - escape makes any string literal; non-magic patterns are literal (DESIGN.md section 5, C09)."""
import itertools

from ..common import F, G, FLAGN, flags_of

SPEC = {
    'rule': ('every string up to the length bound over a 22-character alphabet containing every metacharacter, `\\`, `/`, '
             '`.`, `~`, `-`, `!`, newline and a non-ASCII letter (plus random strings up to 12, and drive/UNC shaped strings for '
             'unix=False) is escaped with the real fnmatch.escape / glob.escape and matched, under sampled subsets of the '
             'feature flags (every subset of size <= 2 covered), against itself (must match) and against a neighbourhood of '
             'single-edit mutants and all short strings over its own alphabet (must not match unless equivalent under the '
             'case/separator rules of the mode). If is_magic(p, flags) is False the same two assertions are made with p itself '
             'as the pattern. A case is one (string, mode, flag set); it is non-trivial when the string contains a '
             'metacharacter of that mode.'),
    'bounds': {'quick': {'exhaustive_length': 2, 'length3_sampled_pct': 6, 'random_per_shard': 150},
               'thorough': {'exhaustive_length': 3, 'length4_sampled_pct': 2, 'random': 'until the time budget'}},
    'floor': {'quick': 200000, 'thorough': 2000000},
    'required_counters': ['self_matches', 'neighbour_rejections', 'nonmagic_literal_checks', 'drive_shapes',
                          'real_tree_checks'],
    'budget': {'quick': 50, 'thorough': 600},
    'shard_timeout': {'quick': 400, 'thorough': 1800},
    'assumptions': ['equivalence of names is: identical; or equal after ASCII case folding in a case-insensitive mode; in '
                    'path mode additionally runs of separators count as one and extra trailing separators on the name are '
                    'tolerated; in Windows mode `/` and `\\` are the same separator',
                    'names that are only loosely equivalent inside a UNC/drive prefix are not asserted on'],
}

ALPHABET = ['*', '?', '[', ']', '(', ')', '{', '}', '|', '!', '-', '~', '\\', '/', '.', '+', '@', ',', '\n', 'a', 'B', 'é']
FN_FEATURES = ['EXTMATCH', 'BRACE', 'SPLIT', 'NEGATE', 'MINUSNEGATE', 'NEGATEALL', 'DOTMATCH', 'RAWCHARS', 'IGNORECASE',
               'CASE', 'FORCEUNIX']
GL_FEATURES = FN_FEATURES + ['GLOBTILDE', 'GLOBSTAR', 'NODOTDIR', 'GLOBSTARLONG']
DRIVES = ['c:/', 'C:', '//host/share/', '//?/UNC/h/s/', '//?/c:/', '//./Volume{b75e2c83-0000-0000-0000-602f00000000}/',
          '//?/GLOBAL/c:/', '//?/GLOBAL/UNC/h/s/', '//host/sh*re/', '//ho[s]t/share/', '//srv/sh?re/', '//a/[bc]/', '//?/c:*', '//srv/sh*',
          '//?/UNC/ser*ver/share/', '//?/unc/ser*ver/sh?re/', '//?/GLOBAL/UNC/h[s]/s/', '//./Unc/a*/b/', '//?/Global/c:/', '//?/UNC/(a)/!b/',
          '//?/GLOBAL/Unc/a-b/~c/', '//./UNC/h/s*/',
          # extended prefixes whose UNC / GLOBAL keyword lacks the parts that have to follow it
          '//?/UNC/x', '//?/UNC/', '//?/UNC', '//?/GLOBAL/UNC/x', '//?/GLOBAL', '//?/GLOBAL/GLOBAL', '//./unc/a', '//?/global/unc', '//?/unc/a*',
          '//?/x', '//?/GLOBAL/x/']


def subsets(features, idx, rng):
    """Rotating coverage of all subsets of size <= 2, plus a random larger subset."""
    singles = [()] + [(f,) for f in features]
    pairs = list(itertools.combinations(features, 2))
    yield singles[idx % len(singles)]
    yield pairs[idx % len(pairs)]
    yield pairs[(idx * 7 + 3) % len(pairs)]
    yield tuple(sorted(rng.sample(features, rng.randint(3, len(features)))))


def fold(x):
    return ''.join(c.lower() if c.isascii() else c for c in x)


def canon_path(x, win):
    if win:
        x = x.replace('\\', '/')
    is_abs = x.startswith('/')
    trail = x.endswith('/') and x.strip('/') != ''
    return is_abs, tuple(p for p in x.split('/') if p), trail


def relation(s, t, pathmode, win, icase):
    """True: t must match escape(s); False: must not; None: not asserted."""
    if t == s:
        return True
    if not icase:
        return _relation(s, t, pathmode, win)
    r1 = _relation(fold(s), fold(t), pathmode, win)
    r2 = _relation(s.lower(), t.lower(), pathmode, win)
    # non-ASCII case pairs: the property speaks of ASCII case only
    return r1 if r1 == r2 else None


def drivish(x):
    x = x.replace('\\', '/')
    return x.startswith('//') or x[1:2] == ':'


def _relation(a, b, pathmode, win):
    if not pathmode:
        if win:
            a, b = a.replace('\\', '/'), b.replace('\\', '/')
        return a == b
    if win and (drivish(a) or drivish(b)):
        # drive / UNC prefixes compare case-insensitively even under CASE and tolerate no duplicate separators:
        # decide only what holds under every reading
        fa, fb = canon_path(a.lower(), True), canon_path(b.lower(), True)
        if not (fa[0] == fb[0] and fa[1] == fb[1] and (fb[2] or not fa[2])):
            return False
        return True if a.replace('\\', '/') == b.replace('\\', '/') else None
    ca, cb = canon_path(a, win), canon_path(b, win)
    loose = ca[0] == cb[0] and ca[1] == cb[1] and (cb[2] or not ca[2])
    if not loose:
        # names consisting of separators only
        if not ca[1] and not cb[1] and ca[0] and cb[0]:
            return None
        return False
    return True


def neighbours(s, rng, extra='a.\\*/'):
    alpha = sorted(set(s) | set(extra))
    out = set()
    for i in range(len(s) + 1):
        for c in alpha:
            out.add(s[:i] + c + s[i:])
            if i < len(s):
                out.add(s[:i] + c + s[i + 1:])
        if i < len(s):
            out.add(s[:i] + s[i + 1:])
            out.add(s[:i] + s[i].swapcase() + s[i + 1:])
    if len(s) <= 2:
        small = sorted(set(s) | set('a/'))[:5]
        for n in range(1, len(s) + 2):
            for tup in itertools.product(small, repeat=n):
                out.add(''.join(tup))
    out.discard('')
    out = sorted(out)
    if len(out) > 260:
        out = rng.sample(out, 260)
    return out


def incomplete_extended_prefix(s):
    """`//?/` or `//./` followed by (GLOBAL/)* and then a UNC keyword without the two parts it needs, or nothing at all."""
    parts = s.replace('\\', '/').split('/')
    if len(parts) < 4 or parts[0] or parts[1] or parts[2] not in ('?', '.'):
        return False
    rest = [p_ for p_ in parts[3:]]
    i = 0
    while i < len(rest) and rest[i].lower() == 'global':
        i += 1
    if i < len(rest) and rest[i].lower() == 'unc':
        need = rest[i + 1:i + 3]
        return len(need) < 2 or not all(need)
    return i >= len(rest) or not rest[i]


def classify(s, t, fnames, exp=None, got=None):
    if 'FORCEWIN' in fnames and exp is False and got is True and s[2:3] == '?' and len(t) == len(s) and t[2:3] != '?' and \
            (t[:2] + t[3:]).replace('\\', '/').lower() == (s[:2] + s[3:]).replace('\\', '/').lower() and incomplete_extended_prefix(s):
        # escape() / is_magic() take `//?/UNC` for a complete `//server/share` drive and leave the `?` alone; the pattern parser
        # does not (the keyword needs two more parts), so the `?` is a wildcard there
        return 'KF-ESCAPE-INCOMPLETE-EXTENDED-UNC'
    if exp is True and got is False and t.endswith('\n') and 'NODOTDIR' in fnames:
        # `(?!\.[.]?(?:$|/))\.` : a final segment `.\n` / `..\n` looks like `.` / `..` to the NODOTDIR guard
        last = t.replace('\\', '/').split('/')[-1] if 'FORCEWIN' in fnames else t.split('/')[-1]
        if last in ('.\n', '..\n'):
            return 'KF-DOLLAR-NEWLINE'
    if 'FORCEWIN' in fnames and exp is True and got is False:
        n = s.replace('\\', '/')
        if n.startswith('//') and '//' in n[2:]:
            return 'KF-WIN-UNC-DUPSEP'
    return None


def check_string(ctx, s, idx, rng, drive=False):
    nbrs = neighbours(s, rng)
    modes = [('glob.escape(unix=False)', G, True), ('fnmatch.escape(FORCEWIN)', F, True)] if drive else [
        ('fnmatch.escape', F, False), ('glob.escape(unix=True)', G, False), ('glob.escape(unix=False)', G, True),
        ('fnmatch.escape(FORCEWIN)', F, True)]
    for api, mod, win in modes:
        pathmode = mod is G
        feats = GL_FEATURES if pathmode else FN_FEATURES
        try:
            esc = F.escape(s) if mod is F else G.escape(s, unix=not win)
            if mod is G and not win and G.escape(s) != esc:
                # on this platform the default (unix=None) is the Unix escape
                ctx.disagree('glob.escape() with the default `unix` differs from unix=True on a POSIX host', {'api': api, 's': s, 'default': G.escape(s), 'unix_true': esc})
        except Exception as e:  # noqa: BLE001
            ctx.disagree(f'{api} raised {type(e).__name__}', {'api': api, 's': s, 'exception': repr(e)})
            continue
        for fnames in subsets(feats, idx, rng):
            if win:
                fnames = tuple(f for f in fnames if f != 'FORCEUNIX') + ('FORCEWIN',)
            flags = flags_of(fnames)
            icase = (('IGNORECASE' in fnames) or win) and 'CASE' not in fnames
            key = (s, api, fnames)
            matchf = F.fnmatch if mod is F else G.globmatch
            pats = [('escape', esc)]
            try:
                magic = mod.is_magic(s, flags=flags)
            except Exception as e:  # noqa: BLE001
                ctx.disagree(f'is_magic raised {type(e).__name__}', {'api': api, 's': s, 'flags': list(fnames)})
                magic = True
            if not magic and 'MATCHBASE' not in fnames:
                pats.append(('nonmagic', s))
                ctx.count('nonmagic_literal_checks')
            for kind, pat in pats:
                try:
                    m = mod.compile(pat, flags=flags)
                except Exception as e:  # noqa: BLE001
                    ctx.disagree(f'{api}: compile of {kind} pattern raised {type(e).__name__}',
                                 {'api': api, 's': s, 'pattern': pat, 'flags': list(fnames), 'exception': repr(e)[:160]})
                    continue
                for t in [s] + nbrs:
                    exp = relation(s, t, pathmode, win, icase)
                    ctx.evals()
                    if exp is None:
                        ctx.count('not_asserted')
                        continue
                    try:
                        got = m.match(t)
                    except Exception as e:  # noqa: BLE001
                        got = f'raised {type(e).__name__}'
                    ctx.count('self_matches' if t == s else ('neighbour_rejections' if not exp else 'equivalent_accepts'))
                    if got is not exp:
                        ctx.disagree(f'{api}/{kind}: expected {exp} got {got}' + (' (self)' if t == s else ''),
                                     {'api': api, 'kind': kind, 's': s, 'pattern': pat, 't': t, 'flags': list(fnames),
                                      'expected': exp, 'observed': got}, classify(s, t, fnames, exp, got))
                if kind == 'escape' and s.isascii() and idx % 3 == 0:
                    # escape() of the bytes twin, used as a bytes pattern under the same flags, accepts the same (ASCII) names
                    try:
                        bs = s.encode('ascii')
                        besc = F.escape(bs) if mod is F else G.escape(bs, unix=not win)
                        mb = mod.compile(besc, flags=flags)
                        ts = [t for t in [s] + nbrs[:60] if t.isascii()]
                        a = [m.match(t) for t in ts]
                        b = [mb.match(t.encode('ascii')) for t in ts]
                    except Exception as e:  # noqa: BLE001
                        a, b, ts = None, f'raised {type(e).__name__}', []
                    ctx.count('bytes_twin_checks')
                    if a != b:
                        i_ = 0 if isinstance(b, str) else next(i for i, (x, y) in enumerate(zip(a, b)) if x != y)
                        ctx.disagree(f'{api}: escape() of the bytes twin behaves differently from the str escape',
                                     {'api': api, 's': s, 'pattern': pat, 't': ts[i_] if ts else None, 'flags': list(fnames),
                                      'str_answer': a[i_] if a else None, 'bytes_answer': b if isinstance(b, str) else b[i_]})
                if kind == 'escape' and idx % 17 == 0:
                    # the one-shot entry point agrees
                    try:
                        one = matchf(s, pat, flags=flags)
                    except Exception as e:  # noqa: BLE001
                        one = f'raised {type(e).__name__}'
                    if one is not True and not s.endswith('\n'):
                        ctx.disagree(f'{api}: one-shot match of s against escape(s) is {one}',
                                     {'api': api, 's': s, 'pattern': pat, 't': s, 'flags': list(fnames)},
                                     classify(s, s, fnames, True, one))
            if any(c in '*?[](){}|!-~\\' for c in s):
                ctx.mark_nontrivial(key)
    if idx % 1500 == 1:
        ctx.sample({'s': s, 'fnmatch.escape': F.escape(s), 'glob.escape(unix=False)': G.escape(s, unix=False),
                    'neighbours_tried': len(nbrs)})


def real_tree(ctx, s, idx, rng):
    """glob.escape on a real directory: glob(escape(s)) returns s and only s (GLOBTILDE needs REALPATH to mean anything)."""
    import os
    import shutil
    from .. import env
    if '/' in s or '\x00' in s or s in ('.', '..') or not s:
        return
    base, root = env.mknested('c09-')
    old_home = os.environ.get('HOME')
    try:
        sibs = [t for t in neighbours(s, rng)[:40] if '/' not in t and t not in ('.', '..', s) and '\x00' not in t][:12]
        for n in [s] + sibs + ['home']:
            try:
                if n == 'home':
                    os.mkdir(os.path.join(root, n))
                else:
                    open(os.path.join(root, n), 'w').close()
            except OSError:
                pass
        os.environ['HOME'] = os.path.join(root, 'home')
        esc = G.escape(s, unix=True)
        for fnames in subsets([f for f in GL_FEATURES if f not in ('IGNORECASE', 'NODOTDIR')] + ['SCANDOTDIR'], idx, rng):
            fnames = tuple(fnames) + ('GLOBTILDE',)
            flags = flags_of(fnames)
            try:
                res = G.glob(esc, flags=flags, root_dir=root)
                one = G.globmatch(s, esc, flags=flags | G.REALPATH, root_dir=root)
                others = G.globfilter(sibs, esc, flags=flags | G.REALPATH, root_dir=root)
            except Exception as e:  # noqa: BLE001
                res, one, others = f'raised {type(e).__name__}', None, None
            ctx.evals(3)
            ctx.count('real_tree_checks')
            if res != [s] or one is not True or others != []:
                fid = 'KF-DOLLAR-NEWLINE' if s.endswith('\n') and s[:-1] in ('.', '..') else None
                ctx.disagree('glob(escape(s)) on a real directory is not exactly [s]',
                             {'api': 'glob.glob', 's': s, 'pattern': esc, 'flags': list(fnames), 'glob': res,
                              'globmatch_realpath': one, 'siblings_matched': others}, fid)
    finally:
        if old_home is None:
            os.environ.pop('HOME', None)
        else:
            os.environ['HOME'] = old_home
        shutil.rmtree(base, ignore_errors=True)


def run(ctx):
    quick = ctx.quick
    idx = 0
    plan = [(1, 100), (2, 100), (3, 6)] if quick else [(1, 100), (2, 100), (3, 100), (4, 2)]
    for n, pct in plan:
        for tup in itertools.product(ALPHABET, repeat=n):
            idx += 1
            if pct < 100 and (idx * 2654435761) % 100 >= pct:
                continue
            if not ctx.mine(idx):
                continue
            if ctx.out_of_time():
                break
            s = ''.join(tup)
            with ctx.case(label=s):
                check_string(ctx, s, idx, ctx.rng_for('s', idx))
                if n <= 2 or idx % 5 == 0:
                    real_tree(ctx, s, idx, ctx.rng_for('rt', idx))
    # drive / UNC shapes (Windows mode)
    for di, d in enumerate(DRIVES):
        for ti, tail in enumerate(['a', 'a*b', '[a]', 'a/b', 'A{1,2}', 'x|y', 'a\\b', '!a', '~', '']):
            idx += 1
            if not ctx.mine(idx):
                continue
            s = d + tail
            ctx.count('drive_shapes')
            with ctx.case(label=s):
                check_string(ctx, s, idx, ctx.rng_for('d', idx), drive=True)
                check_string(ctx, s.replace('/', '\\'), idx + 1, ctx.rng_for('d2', idx), drive=True)
    if not any(ctx.mine(i) for i in range(idx - 99, idx + 1)):
        ctx.count('drive_shapes', 0)
    k = 0
    limit = 150 if quick else 10 ** 9
    while k < limit and not ctx.out_of_time():
        k += 1
        rng = ctx.rng_for('rand', ctx.shard, k)
        s = ''.join(rng.choice(ALPHABET + ['a', 'b', 'x41', '\\x41', '**', '!(', '@(a)', '{a,b}', '..', '//'])
                    for _ in range(rng.randint(3, 8)))[:12]
        with ctx.case(label=s):
            check_string(ctx, s, 10 ** 6 + k, rng)
            real_tree(ctx, s, 10 ** 6 + k, rng)
    ctx.count('random_strings', k)


def replay(ctx, w):
    import random
    s = w['s']
    for idx in range(0, 40):
        real_tree(ctx, s, idx, random.Random(idx))
        check_string(ctx, s, idx, random.Random(idx), drive=w['api'].endswith('False)') and (s[1:2] == ':' or s[:2] in ('//', '\\\\')))
        if ctx.violations:
            break
    return ctx.violations or None
