"""C14 - WcMatch returns exactly the files a filtered directory walk selects (DESIGN.md section 5, C14)."""
import os

from .. import gen, refmodel as R, tree as T
from ..monitor import FSMonitor, lexical_rel
from ..common import foreign_bits, WCMATCH_PARSER_FLAG_NAMES, F, G
from wcmatch import wcmatch as WM
from .c02 import pathspec

SPEC = {
    'rule': ('on generated trees (hidden files and directories, symlinked files / directories, dangling links, nested same-named '
             'folders) the real WcMatch(...).match() / imatch() is run with file patterns and folder-exclude patterns built from '
             'known pieces (joined by `|`, negated with `!` or `-`) under sampled subsets of {RECURSIVE, HIDDEN, SYMLINKS, '
             'FILEPATHNAME, DIRPATHNAME, MATCHBASE, GLOBSTAR, EXTMATCH, BRACE, MINUSNEGATE, IGNORECASE, CASE}; the result list, '
             'get_skipped() and the directories listed (audit hook on os.scandir) are compared with an independent os.scandir walk '
             'whose per-file and per-directory predicates are the boolean combination of single-piece matches (evaluated by '
             'fnmatch/globmatch with dot-matching forced, and on AST-built pieces also by the reference model). A case is one '
             '(tree, patterns, flag set); it is non-trivial when the walk both returns and skips at least one file.'),
    'bounds': {'quick': {'trees_per_shard': 200, 'configs_per_tree': 14}, 'thorough': {'trees': 'until the time budget', 'configs_per_tree': 30}},
    'floor': {'quick': 5000, 'thorough': 60000},
    'required_counters': ['walk_comparisons', 'files_judged', 'skipped_counter_checks', 'directories_listed', 'model_judged_files',
                          'symlink_dirs_seen', 'hidden_dirs_seen'],
    'budget': {'quick': 45, 'thorough': 480},
    'shard_timeout': {'quick': 400, 'thorough': 1500},
    'assumptions': ['SYMLINKS is only combined with trees free of directory cycles (os.walk would follow a cycle until the kernel '
                    'refuses)', 'single pieces are evaluated by fnmatch/globmatch (decomposition) and by the reference model on a sample'],
}

OPT = ['RECURSIVE', 'RECURSIVE', 'HIDDEN', 'SYMLINKS', 'FILEPATHNAME', 'DIRPATHNAME', 'MATCHBASE', 'GLOBSTAR', 'EXTMATCH', 'BRACE',
       'MINUSNEGATE', 'IGNORECASE', 'CASE']


def wmflags(fn):
    v = 0
    for f in fn:
        v |= getattr(WM, f)
    return v


def build_pattern(rng, tr, pathname, ext, globstar, paren_ok=False):
    """A `|`-joined pattern from known pieces: returns text, [(negated, piece text, ast)]."""
    ents = tr.lexical()
    pieces = []
    n = rng.choice((0, 1, 1, 2, 3))
    for _ in range(n):
        if paren_ok and rng.random() < 0.12:
            # an exclusion whose body opens with a literal `(`: behind `-`, or behind `!` without EXTMATCH, that is no extended group
            mid = rng.choice(['a', 'b', 'ab', ''])
            pieces.append((True, '(' + mid + ')*', (('lit', '('),) + tuple(('lit', c) for c in mid) + (('lit', ')'), ('star',))))
            continue
        if pathname:
            ast = gen.tree_pattern(rng, ents, ext=ext, globstar=globstar, maxseg=3)
        else:
            base = os.path.basename(rng.choice(ents)) if ents and rng.random() < 0.8 else rng.choice(['a', 'b', 'zz'])
            ast = gen.generalise_name(rng, base, ext)
        if not ast or gen.ambiguous_adjacency(ast):
            continue
        neg = rng.random() < 0.3
        if pathname and rng.random() < 0.2 and ast[0][0] != 'sep':
            # a leading separator anchors the piece at the root of the walk (and switches MATCHBASE off for it)
            ast = (('sep', '/'),) + tuple(ast)
        pieces.append((neg, gen.ser(ast), ast))
    return pieces


def piece_predicate(pieces, pathname, fn, mark):
    """Boolean combination of single-piece matches (dot-matching forced, `!`/`-` alone = everything except)."""
    icase = 'IGNORECASE' in fn and 'CASE' not in fn
    if pathname:
        fl = G.DOTGLOB
        for f, v in (('EXTMATCH', G.EXTGLOB), ('GLOBSTAR', G.GLOBSTAR), ('BRACE', G.BRACE), ('IGNORECASE', G.IGNORECASE), ('CASE', G.CASE)):
            if f in fn:
                fl |= v
        mb = G.MATCHBASE if 'MATCHBASE' in fn else 0

        def one(text, s):
            t = text.lstrip('/')
            return G.globmatch(s, t, flags=fl | (mb if t == text else 0))
    else:
        fl = F.DOTMATCH
        for f, v in (('EXTMATCH', F.EXTMATCH), ('BRACE', F.BRACE), ('IGNORECASE', F.IGNORECASE), ('CASE', F.CASE)):
            if f in fn:
                fl |= v

        def one(text, s):
            return F.fnmatch(s, text, flags=fl)
    inc = [t for neg, t, _a in pieces if not neg]
    exc = [t for neg, t, _a in pieces if neg]

    def pred(s):
        if not pieces:
            return None
        ok = any(one(t, s) for t in inc) if inc else True
        return ok and not any(one(t, s) for t in exc)
    _ = icase, mark
    return pred


def model_predicate(pieces, pathname, fn):
    icase = 'IGNORECASE' in fn and 'CASE' not in fn
    ps = pathspec(('DOTGLOB',) + (('GLOBSTAR',) if 'GLOBSTAR' in fn else ()) + (('MATCHBASE',) if 'MATCHBASE' in fn else ()) +
                  (('IGNORECASE',) if icase else ()))

    ps_anchored = pathspec(('DOTGLOB',) + (('GLOBSTAR',) if 'GLOBSTAR' in fn else ()) + (('IGNORECASE',) if icase else ()))

    def one(ast, s):
        if pathname:
            if ast and ast[0][0] == 'sep':
                return R.path_match3(tuple(ast[1:]), s, ps_anchored)
            return R.path_match3(ast, s, ps)
        return R.seg_match3(ast, s, True, icase)

    def pred(s):
        incs = [one(a, s) for neg, _t, a in pieces if not neg]
        excs = [one(a, s) for neg, _t, a in pieces if neg]
        if any(x is True for x in excs):
            return False
        if incs:
            if all(x is False for x in incs):
                return False
            if any(x is True for x in incs) and all(x is False for x in excs):
                return True
            return None
        return True if all(x is False for x in excs) else None
    return pred


def reference_walk(root, fn, file_pred, dir_excluded):
    """Independent filtered walk: (returned files, visited-but-not-returned count, directories listed)."""
    recursive = 'RECURSIVE' in fn
    hidden_ok = 'HIDDEN' in fn
    follow = 'SYMLINKS' in fn
    returned = []
    skipped = 0
    listed = []
    stats = {'symlink_dirs': 0, 'hidden_dirs': 0}

    def walk(rel):
        nonlocal skipped
        full = os.path.join(root, rel) if rel else root
        listed.append(rel)
        try:
            with os.scandir(full) as it:
                ents = list(it)
        except OSError:
            return
        dirs, files = [], []
        for e in ents:
            try:
                isdir = e.is_dir()
            except OSError:
                isdir = False
            (dirs if isdir else files).append(e)
        keep = []
        for e in dirs:
            relp = e.name if not rel else rel + '/' + e.name
            ok = recursive and not dir_excluded(relp, e.name)
            if e.name.startswith('.'):
                stats['hidden_dirs'] += 1
                if not hidden_ok:
                    ok = False
            if e.is_symlink():
                stats['symlink_dirs'] += 1
            if ok and (follow or not e.is_symlink()):
                keep.append(relp)
        for e in files:
            relp = e.name if not rel else rel + '/' + e.name
            ok = file_pred(relp, e.name)
            if ok and e.name.startswith('.') and not hidden_ok:
                ok = False
            if ok:
                returned.append(relp)
            else:
                skipped += 1
        for d in keep:
            walk(d)

    walk('')
    return returned, skipped, listed, stats


def check_config(ctx, tr, rng, k, j, mon):
    fn = sorted(set(f for f in OPT if rng.random() < 0.35))
    if tr.has_dir_cycle() and 'SYMLINKS' in fn:
        fn.remove('SYMLINKS')
    ext = 'EXTMATCH' in fn
    gs = 'GLOBSTAR' in fn
    paren_ok = 'MINUSNEGATE' in fn or not ext
    fpieces = build_pattern(rng, tr, 'FILEPATHNAME' in fn, ext, gs, paren_ok)
    dpieces = build_pattern(rng, tr, 'DIRPATHNAME' in fn, ext, gs, paren_ok) if rng.random() < 0.6 else []
    mark = '-' if 'MINUSNEGATE' in fn else '!'

    def text_of(pieces):
        return '|'.join((mark if neg else '') + t for neg, t, _a in pieces)

    ftext, dtext = text_of(fpieces), text_of(dpieces)
    # a piece that begins with the negation mark by accident would change its meaning: the serialiser escapes `!`/`-`
    wit = {'tree': tr.spec, 'file_pattern': ftext, 'exclude_pattern': dtext, 'flags': fn}
    root = tr.root
    fpred = piece_predicate(fpieces, 'FILEPATHNAME' in fn, fn, mark)
    dpred = piece_predicate(dpieces, 'DIRPATHNAME' in fn, fn, mark)

    def file_pred(relp, name):
        r = fpred(relp if 'FILEPATHNAME' in fn else name)
        return True if r is None else r       # empty pattern selects every file

    def dir_excluded(relp, name):
        r = dpred((relp + '/') if 'DIRPATHNAME' in fn else name)
        return False if r is None else r

    # the root may be spelled with a trailing separator, or relative to the working directory
    spelling = rng.choice(['plain', 'plain', 'trailing-sep', 'double-sep', 'relative', 'dot-relative'])
    cwd0 = os.getcwd()
    root_arg = root
    if spelling == 'trailing-sep':
        root_arg = root + '/'
    elif spelling == 'double-sep':
        root_arg = root + '//'
    elif spelling in ('relative', 'dot-relative'):
        os.chdir(os.path.dirname(root))
        root_arg = os.path.basename(root) if spelling == 'relative' else './' + os.path.basename(root) + '/'
    wit['root_spelling'] = spelling
    ctx.count('root_spelling_' + spelling)
    try:
        w = WM.WcMatch(root_arg, ftext, dtext, wmflags(fn))
        mon.arm(budget=5000)
        try:
            got = w.match()
        finally:
            events = mon.disarm()
        skipped = w.get_skipped()
        got2 = list(w.imatch())
        skipped2 = w.get_skipped()      # the count belongs to the run: a second run of the object reports the same number
        got = [os.path.abspath(p) for p in got]
        got2 = [os.path.abspath(p) for p in got2]
        # flag bits that are no WcMatch flag (glob's REALPATH / NODIR / FORCEWIN ..., internal and unused ones) are ignored
        gotf = None
        if (k + j) % 4 == 1:
            fbits = foreign_bits(WCMATCH_PARSER_FLAG_NAMES, extra=0x1F000000)
            fb = fbits[(k * 7 + j) % len(fbits)]
            allf = 0
            for b_ in fbits:
                allf |= b_
            try:
                wf = WM.WcMatch(root_arg, ftext, dtext, wmflags(fn) | fb)
                wa = WM.WcMatch(root_arg, ftext, dtext, wmflags(fn) | allf)
                gotf = (hex(fb), sorted(os.path.abspath(p) for p in wf.match()), wf.get_skipped(), sorted(os.path.abspath(p) for p in wa.match()), wa.get_skipped())
            except Exception as e:  # noqa: BLE001
                gotf = (hex(fb), f'raised {type(e).__name__}', None, None, None)
            ctx.count('foreign_flag_bit_walks')
        # the same walk with everything given as bytes (every third configuration): same files, same count
        gotb = None
        if (k + j) % 3 == 0:
            try:
                wb = WM.WcMatch(os.fsencode(root_arg), os.fsencode(ftext), os.fsencode(dtext), wmflags(fn))
                gotb = (sorted(os.path.abspath(os.fsdecode(p)) for p in wb.match()), wb.get_skipped())
            except Exception as e:  # noqa: BLE001
                gotb = (f'raised {type(e).__name__}', None)
            ctx.count('bytes_twin_walks')
        events = [os.path.abspath(e) if not os.path.isabs(e) else e for e in events]
    except Exception as e:  # noqa: BLE001
        ctx.disagree(f'WcMatch raised {type(e).__name__}', dict(wit, exception=repr(e)[:200]))
        return
    finally:
        os.chdir(cwd0)
    exp, exp_skipped, exp_listed, stats = reference_walk(root, fn, file_pred, dir_excluded)
    ctx.count('symlink_dirs_seen', stats['symlink_dirs'])
    ctx.count('hidden_dirs_seen', stats['hidden_dirs'])
    ctx.evals()
    ctx.count('walk_comparisons')
    ctx.count('files_judged', len(exp) + exp_skipped)
    got_rel = [os.path.relpath(p, root) for p in got]
    if sorted(got_rel) != sorted(exp):
        ctx.disagree('WcMatch result differs from the filtered reference walk',
                     dict(wit, missing=sorted(set(exp) - set(got_rel))[:10], extra=sorted(set(got_rel) - set(exp))[:10],
                          duplicates=sorted({x for x in got_rel if got_rel.count(x) > 1})[:5]))
        return
    if got2 != got:
        ctx.disagree('imatch() does not yield match()\'s list', dict(wit, match=got_rel[:20]))
    if gotf is not None and gotf[1:] != (sorted(got), skipped, sorted(got), skipped):
        ctx.disagree('a flag bit that is no WcMatch flag changes the walk',
                     dict(wit, foreign_bit=gotf[0], with_bit=gotf[1] if isinstance(gotf[1], str) else [os.path.relpath(p, root) for p in gotf[1]][:20],
                          with_bit_skipped=gotf[2], with_all_foreign_bits_skipped=gotf[4], without=got_rel[:20], skipped=skipped))
    if gotb is not None and gotb != (sorted(got), skipped):
        ctx.disagree('the walk with bytes arguments differs from the walk with str arguments',
                     dict(wit, str_result=got_rel[:20], str_skipped=skipped, bytes_skipped=gotb[1],
                          bytes_result=gotb[0] if isinstance(gotb[0], str) else [os.path.relpath(p, root) for p in gotb[0]][:20]))
    ctx.count('skipped_counter_checks')
    if skipped2 != skipped:
        ctx.disagree('get_skipped() after a second run of the same object differs from the first run', dict(wit, first=skipped, second=skipped2))
    if skipped != exp_skipped:
        ctx.disagree('get_skipped() differs from files visited and not returned', dict(wit, get_skipped=skipped, expected=exp_skipped))
    listed = [lexical_rel(root, os.path.normpath(e)) for e in events]
    ctx.count('directories_listed', len(listed))
    if sorted(x for x in listed if x is not None) != sorted(exp_listed) or None in listed:
        ctx.disagree('directories listed by WcMatch differ from the directories the filtered walk keeps',
                     dict(wit, listed=[repr(x) for x in listed][:20], expected=exp_listed[:20]))
    # reference model on the pieces (sample)
    if j % 2 == 0 and (fpieces or dpieces):
        mf = model_predicate(fpieces, 'FILEPATHNAME' in fn, fn) if fpieces else None
        if mf:
            for relp in exp + [x for x in tr.lexical() if x not in exp][:30]:
                name = os.path.basename(relp)
                s = relp if 'FILEPATHNAME' in fn else name
                if '\n' in s or any(seg in ('.', '..') for seg in s.split('/')):
                    continue
                m = mf(s)
                if m is None:
                    continue
                ctx.count('model_judged_files')
                ctx.evals()
                w_says = fpred(s)
                if w_says is not m:
                    from .. import findings
                    fid = None
                    for neg, _t, a in fpieces:
                        f_ = (findings.classify_path(a, s, pathspec(('DOTGLOB',) + (('GLOBSTAR',) if gs else ()) + (('MATCHBASE',) if 'MATCHBASE' in fn else ())), not m if not neg else m)
                              if 'FILEPATHNAME' in fn else findings.classify_segment(a, s, True, 'IGNORECASE' in fn and 'CASE' not in fn, not m if not neg else m))
                        if f_:
                            fid = f_
                            break
                    ctx.disagree('file pattern pieces differ from the reference model', dict(wit, subject=s, expected=m, observed=w_says), fid)
                    break
    if exp and exp_skipped:
        ctx.mark_nontrivial((ctx.shard, k, j))
    if j == 0 and k % 8 == 0:
        ctx.sample(dict(wit, returned=exp[:8], skipped=exp_skipped, directories_listed=exp_listed[:6]))


def odd_name_walks(ctx):
    """Names holding line feeds, spaces, brackets and backslashes under an empty / absent / ordinary file pattern."""
    from .c05 import ODD_TREE
    cases = [(None, None), ('', ''), ('*', None), ('*.txt|a*', None), ('!*.py', None), ('*', 'sub*'), ('', 'q?r'), (None, 'a b|sub'), ('[[]*|x*', ''), ('?', None),
             ('*.p[y]', None), ('ab[c]|ab?', None)]
    fsets = [('RECURSIVE', 'HIDDEN'), ('RECURSIVE',), (), ('RECURSIVE', 'FILEPATHNAME', 'GLOBSTAR'), ('RECURSIVE', 'IGNORECASE')]
    idx, todo = 0, []
    for fp, dp in cases:
        for fn in fsets:
            idx += 1
            if ctx.mine(idx):
                todo.append((fp, dp, fn))
    if not todo:
        return
    with T.Tree(ODD_TREE, 'c14o-') as tr:
        for fp, dp, fn in todo:
            fn = sorted(fn)
            with ctx.case(timeout=20, label=('odd-names', fp, dp, tuple(fn))):
                if 'FILEPATHNAME' in fn and fp and '|' not in fp and not fp.startswith('!'):
                    fpt = '**/' + fp
                else:
                    fpt = fp
                fpieces = [(p_.startswith('!'), p_.lstrip('!'), None) for p_ in (fpt or '').split('|') if p_]
                dpieces = [(False, p_, None) for p_ in (dp or '').split('|') if p_]
                if 'FILEPATHNAME' in fn and any('/' not in t for _n, t, _a in fpieces):
                    continue
                fpred = piece_predicate(fpieces, 'FILEPATHNAME' in fn, fn, '!')
                dpred = piece_predicate(dpieces, False, fn, '!')
                exp, exp_skipped, _l, _s = reference_walk(
                    tr.root, fn, lambda relp, name: (lambda r: True if r is None else r)(fpred(relp if 'FILEPATHNAME' in fn else name)),
                    lambda relp, name: (lambda r: False if r is None else r)(dpred(name)))
                wit = {'tree': ODD_TREE, 'file_pattern': fpt, 'exclude_pattern': dp, 'flags': fn}
                for as_bytes in (False, True):
                    conv = (lambda x: os.fsencode(x) if x is not None else None) if as_bytes else (lambda x: x)
                    try:
                        w = WM.WcMatch(conv(tr.root), conv(fpt), conv(dp), wmflags(fn))
                        got = sorted(os.path.relpath(os.fsdecode(p), tr.root) for p in w.match())
                        sk = w.get_skipped()
                    except Exception as e:  # noqa: BLE001
                        ctx.disagree(f'WcMatch raised {type(e).__name__}', dict(wit, bytes=as_bytes, exception=repr(e)[:200]))
                        continue
                    ctx.evals()
                    ctx.count('odd_name_walks')
                    if got != sorted(exp) or sk != exp_skipped:
                        ctx.disagree('WcMatch result differs from the filtered reference walk',
                                     dict(wit, bytes=as_bytes, missing=sorted(set(exp) - set(got))[:10], extra=sorted(set(got) - set(exp))[:10],
                                          get_skipped=sk, expected_skipped=exp_skipped))
                if exp and exp_skipped:
                    ctx.mark_nontrivial(('odd', fp, dp, tuple(fn)))


def run(ctx):
    quick = ctx.quick
    mon = FSMonitor.get()
    odd_name_walks(ctx)
    k = 0
    limit = 200 if quick else 10 ** 9
    while k < limit and not ctx.out_of_time():
        k += 1
        rng = ctx.rng_for('t', ctx.shard, k)
        spec = T.gen_spec(rng, max_entries=16)
        with T.Tree(spec, 'c14-') as tr:
            for j in range(14 if quick else 30):
                with ctx.case(timeout=20, label=('tree', ctx.shard, k, j)):
                    check_config(ctx, tr, rng, k, j, mon)
    ctx.count('trees', k)
    for c in ('model_judged_files', 'symlink_dirs_seen', 'hidden_dirs_seen'):
        ctx.count(c, 0)


def replay(ctx, w):
    """Replays re-run the recorded patterns on the recorded tree against the decomposition oracle."""
    spec = [tuple(x) for x in w['tree']]
    fn = list(w['flags'])
    mark = '-' if 'MINUSNEGATE' in fn else '!'

    def parse(text):
        # pieces were joined by `|` at top level by construction; split with wcmatch's own splitter is avoided on purpose:
        # use the generator's convention (no unescaped top-level `|` inside a piece except within groups/sets)
        from wcmatch import _wcparse
        out = []
        for p in _wcparse.WcSplit(text, WM.EXTMATCH if 'EXTMATCH' in fn else 0).split() if text else []:
            neg = p.startswith(mark)
            out.append((neg, p[1:] if neg else p, None))
        return out

    with T.Tree(spec, 'c14r-') as tr:
        fpieces, dpieces = parse(w['file_pattern']), parse(w['exclude_pattern'])
        fpred = piece_predicate(fpieces, 'FILEPATHNAME' in fn, fn, mark)
        dpred = piece_predicate(dpieces, 'DIRPATHNAME' in fn, fn, mark)
        exp, exp_skipped, exp_listed, _s = reference_walk(
            tr.root, fn,
            lambda relp, name: (lambda r: True if r is None else r)(fpred(relp if 'FILEPATHNAME' in fn else name)),
            lambda relp, name: (lambda r: False if r is None else r)(dpred((relp + '/') if 'DIRPATHNAME' in fn else name)))
        spelling = w.get('root_spelling', 'plain')
        cwd0 = os.getcwd()
        root_arg = tr.root
        if spelling == 'trailing-sep':
            root_arg = tr.root + '/'
        elif spelling == 'double-sep':
            root_arg = tr.root + '//'
        elif spelling in ('relative', 'dot-relative'):
            os.chdir(os.path.dirname(tr.root))
            root_arg = os.path.basename(tr.root) if spelling == 'relative' else './' + os.path.basename(tr.root) + '/'
        try:
            wm = WM.WcMatch(root_arg, w['file_pattern'], w['exclude_pattern'], wmflags(fn))
            got = sorted(os.path.relpath(os.path.abspath(p), tr.root) for p in wm.match())
        finally:
            os.chdir(cwd0)
        if got != sorted(exp):
            ctx.disagree('WcMatch result differs from the filtered reference walk', dict(w, now=got[:20], expected_now=sorted(exp)[:20]))
        elif wm.get_skipped() != exp_skipped:
            ctx.disagree('get_skipped() differs from files visited and not returned', w)
    return ctx.violations or None
