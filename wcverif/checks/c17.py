"""C17 - case and platform flags select a consistent matching mode (DESIGN.md section 5, C17)."""
import itertools
import re

from .. import gen
from ..common import F, G, flags_of, shape

SPEC = {
    'rule': ('patterns from the C01/C02 generators over a mixed-case alphabet (plus drive / UNC / `//?/` templates and '
             'escaped-backslash separators) are compiled by the real fnmatch.compile / glob.compile under all 16 combinations of '
             '{CASE, IGNORECASE, FORCEWIN, FORCEUNIX}; the answer vectors over a name universe closed under ASCII case swapping '
             'and `/` <-> `\\` substitution are compared by metamorphic relations: case-insensitive iff (IGNORECASE or Windows '
             'rules) and not CASE; in that mode invariance under swapping the case of the name and of the literal pattern text; '
             'in case-sensitive mode a literal pattern matches only its spelling; CASE|IGNORECASE == CASE; FORCEWIN|FORCEUNIX == '
             'neither; under FORCEWIN separator spellings are interchangeable, `\\\\` in the pattern is a separator, and for '
             'backslash-free patterns the result equals Unix IGNORECASE matching of the name with `\\` replaced by `/`; drive and '
             'UNC prefixes are literal and case-insensitive even under CASE. A case is one pattern (16 flag sets); it is '
             'non-trivial when some case-insensitive vector differs from the case-sensitive one.'),
    'bounds': {'quick': {'enumerated': 'length 1 exhaustive + length 2 sampled 2%', 'random_asts_per_shard': 100},
               'thorough': {'enumerated': 'length 1-2 (40%)', 'random': 'until the time budget'}},
    'floor': {'quick': 200000, 'thorough': 2000000},
    'required_counters': ['fnmatch_slash_patterns', 'relation_checks', 'icase_vectors', 'win_separator_checks', 'win_vs_unix_icase_checks', 'drive_checks',
                          'literal_exact_checks', 'bytes_checks', 'glob_case_tree_checks'],
    'budget': {'quick': 45, 'thorough': 480},
    'shard_timeout': {'quick': 400, 'thorough': 1500},
    'assumptions': ['only ASCII letters take part in case relations', 'the platform is Linux: Windows rules are observed through FORCEWIN'],
}

CASEF = ('CASE', 'IGNORECASE', 'FORCEWIN', 'FORCEUNIX')
COMBOS = [tuple(f for f, b in zip(CASEF, bits) if b) for bits in itertools.product((0, 1), repeat=4)]

POOL_ATOMS = (
    ('lit', 'a'), ('lit', 'B'), ('lit', '.'), ('star',), ('q',),
    ('set', False, (('c', 'a'),)), ('set', True, (('c', 'B'),)), ('set', False, (('r', 'a', 'c'),)), ('set', False, (('p', 'upper'),)),
)
ALTS = ((('lit', 'a'),), (('lit', 'B'),), (('q',),), (('star',),), (('lit', 'a'), ('lit', 'B')), (('set', True, (('c', 'a'),)),), ())


def pool():
    p = list(POOL_ATOMS)
    for kind in '?*+@!':
        for a in ALTS:
            p.append(('grp', kind, (a,)))
        for a, b in itertools.combinations(ALTS, 2):
            p.append(('grp', kind, (a, b)))
    return p


def swap_lits(toks):
    out = []
    for t in toks:
        if t[0] in ('lit', 'elit'):
            out.append((t[0], t[1].swapcase() if t[1].isascii() else t[1]))
        elif t[0] == 'grp':
            out.append(('grp', t[1], tuple(swap_lits(a) for a in t[2])))
        else:
            out.append(t)
    return tuple(out)


def has_set(toks):
    return any(t[0] == 'set' or (t[0] == 'grp' and any(has_set(a) for a in t[2])) for t in toks)


def literal_only(toks):
    return all(t[0] in ('lit', 'sep') for t in toks)


def is_icase(combo):
    win = 'FORCEWIN' in combo and 'FORCEUNIX' not in combo
    return ('IGNORECASE' in combo or win) and 'CASE' not in combo


def is_win(combo):
    return 'FORCEWIN' in combo and 'FORCEUNIX' not in combo


def closed_universe(base, path_mode):
    names = []
    seen = set()

    def add(x):
        if x and x not in seen:
            seen.add(x)
            names.append(x)
    for n in base:
        add(n)
    for n in list(names):
        add(n.swapcase())
    for n in list(names):
        if '/' in n:
            add(n.replace('/', '\\'))
            add(n.replace('/', '\\', 1))
    for n in list(names):
        if '\\' in n:
            add(n.replace('\\', '/'))
    for n in list(names):
        add(n.swapcase())
    return names


def vectors(ctx, mod, text, extra, names, as_bytes=False, entry='compile'):
    vec = {}
    enc = (lambda x: x.encode('latin-1')) if as_bytes else (lambda x: x)
    for combo in COMBOS:
        flags = flags_of(combo + extra)
        try:
            if entry == 'compile':
                m = mod.compile(enc(text) if isinstance(text, str) else type(text)(enc(t) for t in text), flags=flags)
                vec[combo] = tuple(m.match(enc(n)) for n in names)
            elif entry == 'translate':
                pos, neg = mod.translate(enc(text), flags=flags)
                pos = [re.compile(x) for x in pos]
                neg = [re.compile(x) for x in neg]
                vec[combo] = tuple(any(p.fullmatch(enc(n)) for p in pos) and not any(q.fullmatch(enc(n)) for q in neg)
                                   for n in names)
            elif entry == 'oneshot':
                fn = mod.fnmatch if mod is F else mod.globmatch
                vec[combo] = tuple(fn(enc(n), enc(text), flags=flags) for n in names)
            else:
                fl = mod.filter if mod is F else mod.globfilter
                kept = set(fl([enc(n) for n in names], enc(text), flags=flags))
                vec[combo] = tuple(enc(n) in kept for n in names)
        except Exception as e:  # noqa: BLE001
            vec[combo] = f'raised {type(e).__name__}'
        ctx.evals(len(names))
    return vec


def check_pattern(ctx, toks, path_mode, extra, key, base_names, bytes_too=False):
    mod = G if path_mode else F
    text = gen.ser(toks)
    names = closed_universe(base_names, path_mode)
    index = {n: i for i, n in enumerate(names)}
    vec = vectors(ctx, mod, text, extra, names)
    wit = {'api': mod.__name__.split('.')[-1], 'ast': toks, 'pattern': text, 'extra_flags': list(extra)}

    def bad(what, **kw):
        ctx.disagree(what + f'|{"glob" if path_mode else "fnmatch"}', dict(wit, **kw))

    for combo, v in vec.items():
        if isinstance(v, str):
            bad(f'compile/match {v}', flags=list(combo))
            return
    # (0) every entry point selects the same mode from the same flags
    for entry in ('translate', 'oneshot', 'filter'):
        v2 = vectors(ctx, mod, text, extra, names, entry=entry)
        ctx.count('entry_point_vectors')
        for combo in COMBOS:
            if v2[combo] != vec[combo]:
                i = 0 if isinstance(v2[combo], str) else next(i for i, (a, b) in enumerate(zip(v2[combo], vec[combo])) if a != b)
                bad(f'{entry} selects a different matching mode than the compiled matcher under the same flags', flags=list(combo),
                    name=names[i], compiled_got=vec[combo][i], other_got=v2[combo] if isinstance(v2[combo], str) else v2[combo][i])
                return
    # (0b) a list holding the pattern and its case twin accepts the union, under every case / platform mode (the de-duplication
    #      of expanded patterns follows the mode that is in force)
    twin = gen.ser(swap_lits(toks))
    if twin != text and (len(text) + len(names)) % 2 == 0:
        v_twin = vectors(ctx, mod, twin, extra, names)
        for label, arg in (('list', [text, twin]), ('tuple, twin first', (twin, text, twin))):
            v_list = vectors(ctx, mod, arg, extra, names)
            ctx.count('case_twin_list_vectors')
            for combo in COMBOS:
                if isinstance(v_list[combo], str) or isinstance(v_twin[combo], str):
                    continue
                want = tuple(bool(a) or bool(b) for a, b in zip(vec[combo], v_twin[combo]))
                got = tuple(bool(x) for x in v_list[combo])
                if got != want:
                    i = next(i for i, (a, b) in enumerate(zip(got, want)) if a != b)
                    bad('a list of a pattern and its case twin does not accept the union of the two', flags=list(combo), form=label,
                        twin=twin, name=names[i], got=got[i], expected=want[i])
                    return
    # (1) CASE wins, FORCEWIN+FORCEUNIX cancel
    for combo in COMBOS:
        canon = list(combo)
        if 'CASE' in canon and 'IGNORECASE' in canon:
            canon.remove('IGNORECASE')
        if 'FORCEWIN' in canon and 'FORCEUNIX' in canon:
            canon.remove('FORCEWIN')
            canon.remove('FORCEUNIX')
        canon = tuple(canon)
        ctx.count('relation_checks')
        if vec[combo] != vec[canon]:
            i = next(i for i, (a, b) in enumerate(zip(vec[combo], vec[canon])) if a != b)
            bad('flag combination is not equivalent to its canonical form (CASE wins over IGNORECASE; FORCEWIN+FORCEUNIX cancel)',
                flags=list(combo), canonical=list(canon), name=names[i], got=vec[combo][i], canonical_got=vec[canon][i])
            return
    # (2) mode equalities on Linux: default == FORCEUNIX == CASE (case sensitive, unix); I == I|U ; W == I|W
    for a, b in ((( ), ('FORCEUNIX',)), ((), ('CASE',)), (('IGNORECASE',), ('IGNORECASE', 'FORCEUNIX')),
                 (('FORCEWIN',), ('IGNORECASE', 'FORCEWIN')), (('CASE',), ('CASE', 'FORCEUNIX'))):
        ctx.count('relation_checks')
        if vec[a] != vec[b]:
            i = next(i for i, (x, y) in enumerate(zip(vec[a], vec[b])) if x != y)
            bad('two flag sets that select the same mode disagree', flags_a=list(a), flags_b=list(b), name=names[i],
                got_a=vec[a][i], got_b=vec[b][i])
            return
    nontrivial = False
    swapped_text = gen.ser(swap_lits(toks))
    for combo in COMBOS:
        v = vec[combo]
        win = is_win(combo)
        if is_icase(combo):
            ctx.count('icase_vectors')
            if v != vec[('CASE',) + (('FORCEWIN',) if win else ())]:
                nontrivial = True
            # name case swap
            for n, i in index.items():
                j = index.get(n.swapcase())
                if j is not None and v[i] != v[j]:
                    bad('case-insensitive mode: result changes when the ASCII case of the name is swapped', flags=list(combo),
                        name=n, got=v[i], swapped_got=v[j])
                    return
            # literal pattern text case swap
            if swapped_text != text:
                try:
                    m2 = mod.compile(swapped_text, flags=flags_of(combo + extra))
                    v2 = tuple(m2.match(n) for n in names)
                except Exception as e:  # noqa: BLE001
                    v2 = f'raised {type(e).__name__}'
                ctx.evals(len(names))
                if v2 != v:
                    i = 0 if isinstance(v2, str) else next(i for i, (x, y) in enumerate(zip(v, v2)) if x != y)
                    bad('case-insensitive mode: result changes when the case of literal pattern text is swapped', flags=list(combo),
                        swapped_pattern=swapped_text, name=names[i], got=v[i], swapped_got=v2 if isinstance(v2, str) else v2[i])
                    return
        elif literal_only(toks) and not path_mode:
            # case sensitive: literal text matches only its exact spelling
            lit = ''.join(t[1] for t in toks)
            for n, i in index.items():
                nn = n.replace('\\', '/') if win else n
                ll = lit.replace('\\', '/') if win else lit
                ctx.count('literal_exact_checks')
                if v[i] != (nn == ll):
                    bad('case-sensitive mode: a literal pattern does not match exactly its own spelling', flags=list(combo), name=n,
                        got=v[i])
                    return
        if win and (path_mode or not has_set(toks)):
            # separator spellings are interchangeable in the name (in file-name mode a bracket expression may list one
            # separator character and not the other: not asserted there)
            for n, i in index.items():
                if '/' in n or '\\' in n:
                    j = index.get(n.replace('\\', '/'))
                    ctx.count('win_separator_checks')
                    if j is not None and v[i] != v[j]:
                        bad('Windows mode: `/` and `\\` in the name are not interchangeable', flags=list(combo), name=n,
                            got=v[i], slash_got=v[j])
                        return
    # (3) backslash-free pattern: Windows mode == Unix IGNORECASE on the name with `\` -> `/`
    if '\\' not in text and not text.startswith('//') and ':' not in text and (path_mode or not has_set(toks)):
        vw, vi = vec[('FORCEWIN',)], vec[('IGNORECASE',)]
        for n, i in index.items():
            j = index.get(n.replace('\\', '/'))
            if j is None or n.replace('\\', '/').startswith('//'):
                continue
            ctx.count('win_vs_unix_icase_checks')
            if vw[i] != vi[j]:
                bad('backslash-free pattern: Windows mode differs from Unix IGNORECASE on the `/`-spelled name', name=n,
                    windows=vw[i], unix_icase=vi[j])
                return
    # (4) escaped backslash in the pattern acts as a separator under FORCEWIN (glob mode)
    if path_mode and any(t[0] == 'sep' for t in toks):
        t2 = gen.ser(tuple(('sep', '\\\\') if t[0] == 'sep' else t for t in toks))
        # ... and so do mixed runs of both spellings behind the first segment (an escaped backslash directly in front of a `/`, and
        # the other way round): whatever stands behind the run keeps its meaning
        inner = [i_ for i_, t in enumerate(toks) if t[0] == 'sep' and i_ > 0]
        variants = [t2]
        if inner:
            for run in ('\\\\/', '/\\\\', '\\\\\\\\'):
                variants.append(gen.ser(tuple(('sep', run) if i_ in inner else t for i_, t in enumerate(toks))))
        for combo, t2 in [(c_, v_) for c_ in (('FORCEWIN',), ('CASE', 'FORCEWIN')) for v_ in variants]:
            try:
                m2 = mod.compile(t2, flags=flags_of(combo + extra))
                v2 = tuple(m2.match(n) for n in names)
            except Exception as e:  # noqa: BLE001
                v2 = f'raised {type(e).__name__}'
            ctx.evals(len(names))
            ctx.count('relation_checks')
            if v2 != vec[combo]:
                i = 0 if isinstance(v2, str) else next(i for i, (x, y) in enumerate(zip(vec[combo], v2)) if x != y)
                bad('Windows mode: an escaped backslash in the pattern does not act like a separator', flags=list(combo),
                    backslash_pattern=t2, name=names[i], slash_got=vec[combo][i], backslash_got=v2 if isinstance(v2, str) else v2[i])
                return
    if bytes_too:
        try:
            vb = vectors(ctx, mod, text, extra, names, as_bytes=True)
            ctx.count('bytes_checks', len(COMBOS))
            for combo in COMBOS:
                if vb[combo] != vec[combo]:
                    bad('bytes answer vector differs from str under a case/platform flag set', flags=list(combo))
                    return
        except UnicodeEncodeError:
            pass
    if nontrivial:
        ctx.mark_nontrivial((text, path_mode, extra))
    if ctx.cases % 200 == 1:
        ctx.sample({'pattern': text, 'mode': 'glob' if path_mode else 'fnmatch', 'names': names[:8], 'flag_sets': 16})


DRIVES = ['c:/', '//host/share/', '//?/UNC/host/share/', '//?/c:/', '//./c:/', '//?/GLOBAL/c:/']


def drive_checks(ctx, rng, k):
    """Drive / UNC prefixes match only as literal, case-insensitive prefixes, even under CASE."""
    d = DRIVES[k % len(DRIVES)]
    rest = gen.rand_path_tokens(rng, maxseg=2, alpha='aB.x', depth=1)
    if rest and rest[0][0] == 'sep':
        rest = rest[1:]
    if not rest or gen.ambiguous_adjacency(rest):
        return
    ptxt = gen.ser(rest)
    tails = gen.path_universe(rest, rng, cap=40)
    tails = [t for t in tails if not t.startswith('/')][:40]
    for case_flags in ((), ('CASE',), ('IGNORECASE',)):
        fl = flags_of(('FORCEWIN', 'EXTMATCH', 'GLOBSTAR') + case_flags)
        try:
            base = G.compile('/' + ptxt, flags=fl)
            md = G.compile(d + ptxt, flags=fl)
            md2 = G.compile(d.swapcase() + ptxt, flags=fl)
            mdw = G.compile(d.replace('host', 'ho*t') + ptxt, flags=fl)
        except Exception as e:  # noqa: BLE001
            ctx.disagree(f'drive pattern raised {type(e).__name__}', {'drive': d, 'pattern': ptxt})
            return
        for t in tails:
            exp = base.match('/' + t)
            ctx.evals(4)
            ctx.count('drive_checks', 4)
            for what, got in (('exact drive', md.match(d + t)), ('case-swapped drive in the name', md.match(d.swapcase() + t)),
                              ('case-swapped drive in the pattern', md2.match(d + t)),
                              ('backslash spelling of the drive in the name', md.match((d + t).replace('/', '\\')))):
                if got is not exp:
                    ctx.disagree(f'drive/UNC prefix is not a literal case-insensitive prefix: {what}',
                                 {'drive': d, 'pattern': d + ptxt, 'name': d + t, 'flags': list(case_flags) + ['FORCEWIN'],
                                  'expected_like_rooted': exp, 'observed': got})
                    return
            other = d.replace('host', 'hosx').replace('c:', 'd:')
            if md.match(other + t):
                ctx.disagree('a different drive/share matches', {'drive': d, 'pattern': d + ptxt, 'name': other + t})
                return
            if mdw is not md and d != d.replace('host', 'ho*t') and mdw.match(d + t):
                ctx.disagree('wildcards inside a drive/UNC prefix are not literal',
                             {'drive': d, 'pattern': d.replace('host', 'ho*t') + ptxt, 'name': d + t})
                return
    ctx.mark_nontrivial(('drive', d, ptxt))


def bare_drive_checks(ctx):
    """A complete drive / UNC / device prefix with nothing behind it is a pattern too: it matches its own text (any ASCII case, either
    separator spelling, with or without a closing separator exactly as the pattern has it or more) and no other prefix."""
    bare = ['//host/share', '//?/c:', '//./pipe', '//?/UNC/host/share', '//?/GLOBAL/UNC/host/share', '//?/GLOBAL/c:', 'c:', '//host/share/', '//?/c:/',
            'c:/', '//?/UNC/host/share/', '//h/s', '//?/Volume{b75e2c83-0000-0000-0000-602f00000000}']
    for bi, d in enumerate(bare):
        if not ctx.mine(bi):
            continue
        for case_flags in ((), ('CASE',), ('IGNORECASE',), ('MATCHBASE',), ('MATCHBASE', 'CASE', 'GLOBSTAR'), ('NODIR',), ('DOTMATCH', 'NEGATE')):
            for as_bytes in (False, True):
                conv = (lambda x: x.encode('ascii')) if as_bytes else (lambda x: x)
                fl = flags_of(('FORCEWIN',) + case_flags)
                with ctx.case(label=('bare-drive', d, case_flags, as_bytes)):
                    try:
                        m = G.compile(conv(d), flags=fl)
                    except Exception as e:  # noqa: BLE001
                        ctx.disagree(f'drive pattern raised {type(e).__name__}', {'drive': d, 'pattern': d})
                        continue
                    stem = d.rstrip('/')
                    same = [d, d.swapcase(), d.replace('/', '\\'), d.upper(), d + '/', stem + '\\']
                    other = [stem.replace('host', 'hosx').replace('c:', 'd:').replace('pipe', 'pipx').replace('//h/s', '//h/t').replace('b75e', 'b75f') + d[len(stem):],
                             stem + 'x', stem[:-1], stem + '/x', 'x/' + stem.lstrip('/'), 'x/y/' + stem.lstrip('/') + d[len(stem):], 'x\\' + stem.lstrip('/')]
                    for n in same:
                        ctx.evals()
                        ctx.count('bare_drive_checks')
                        if 'NODIR' in case_flags and (n.endswith('/') or n.endswith('\\')):
                            continue
                        if m.match(conv(n)) is not True:
                            ctx.disagree('a bare drive/UNC prefix does not match its own text (case / separator spelling / closing separator)|glob',
                                         {'drive': d, 'pattern': d, 'name': n, 'flags': list(case_flags) + ['FORCEWIN'], 'bytes': as_bytes})
                            break
                    for n in other:
                        ctx.evals()
                        ctx.count('bare_drive_checks')
                        if n != d and m.match(conv(n)) is not False:
                            ctx.disagree('a bare drive/UNC prefix matches another name|glob',
                                         {'drive': d, 'pattern': d, 'name': n, 'flags': list(case_flags) + ['FORCEWIN'], 'bytes': as_bytes})
                            break
                    ctx.mark_nontrivial(('bare-drive', d, case_flags))


def simple_pairs_outside_ascii(ctx):
    """Case-insensitive mode is case-insensitive for str patterns outside ASCII too: letters with a simple one-to-one case partner
    (no special folding rules) match their partner under IGNORECASE and do not under CASE; bytes fold ASCII only."""
    pairs = [('\xe9', '\xc9'), ('\xf1', '\xd1'), ('\u0436', '\u0416'), ('\u03b4', '\u0394'), ('\xfc', '\xdc')]
    n = 0
    for lo, up in pairs:
        shapes = [(lo, up), ('a' + lo + '*', 'A' + up + 'x'), ('[' + lo + ']', up), ('[!' + lo + ']', up), ('@(' + lo + '|b)', up), ('!(' + lo + ')', up),
                  ('?' + lo, 'x' + up), ('[a' + lo + ']b', up + 'B')]
        for pat, name in shapes:
            neg = pat.startswith('[!') or pat.startswith('!(')
            for mod in (F, G):
                for extra, icase in ((('IGNORECASE',), True), ((), False), (('IGNORECASE', 'CASE'), False), (('FORCEWIN',), True), (('FORCEWIN', 'CASE'), False)):
                    flags = flags_of(('EXTMATCH',) + extra)
                    try:
                        got = mod.compile(pat, flags=flags).match(name)
                        got_t = any(re.compile(x).fullmatch(name) for x in mod.translate(pat, flags=flags)[0])
                    except Exception as e:  # noqa: BLE001
                        got = got_t = f'raised {type(e).__name__}'
                    exp = (icase != neg)
                    n += 1
                    if got is not exp or got_t is not exp:
                        ctx.disagree('case-insensitive mode does not fold a simple non-ASCII case pair (or case-sensitive mode does)|'
                                     + ('glob' if mod is G else 'fnmatch'),
                                     {'mode': 'simple-pairs', 'pattern': pat, 'name': name, 'flags': ['EXTMATCH'] + list(extra), 'expected': exp,
                                      'match': got, 'via_translate': got_t})
    ctx.evals(n)
    ctx.count('non_ascii_pair_checks', n)


def caseless_text_templates(ctx):
    """Patterns that contain no cased character themselves but whose bracket ranges span letters of one case: in a case-insensitive
    mode the accepted set is still closed under ASCII case of the name."""
    pats = ['[0-`]', '[[-~]', '[!0-`]', '[@-Z]?', '*[^-z]', '[0-`][0-`]', '@([0-`]|1)', '[[:upper:]]', '[![:lower:]]1', '?[5-_]', '[\\x41-\\x5a]']
    names = ['q', 'Q', 'a', 'A', 'z', 'Z', '5', '_', 'qq', 'Qq', 'q1', 'Q1', '1q', '1Q', 'aZ']
    n = 0
    for pat in pats:
        for mod in (F, G):
            for extra in (('IGNORECASE',), ('FORCEWIN',), ('IGNORECASE', 'FORCEUNIX'), ('IGNORECASE', 'DOTMATCH')):
                flags = flags_of(('EXTMATCH',) + extra + (('RAWCHARS',) if '\\x' in pat else ()))
                try:
                    m = mod.compile(pat, flags=flags)
                    rx = [re.compile(x) for x in mod.translate(pat, flags=flags)[0]]
                    for nm in names:
                        a, b = m.match(nm), m.match(nm.swapcase())
                        ta, tb = any(r.fullmatch(nm) for r in rx), any(r.fullmatch(nm.swapcase()) for r in rx)
                        n += 1
                        if a is not b or ta is not tb or a is not ta:
                            ctx.disagree('case-insensitive mode: a pattern without cased text answers differently for the two cases of a name|'
                                         + ('glob' if mod is G else 'fnmatch'),
                                         {'mode': 'caseless-text', 'pattern': pat, 'flags': ['EXTMATCH'] + list(extra), 'name': nm, 'got': a, 'swapped_got': b,
                                          'via_translate': [ta, tb]})
                            break
                except Exception as e:  # noqa: BLE001
                    ctx.disagree(f'compile raised {type(e).__name__}', {'pattern': pat, 'mode': 'caseless-text'})
    ctx.evals(n)
    ctx.count('caseless_text_checks', n)


def bracket_backslash_templates(ctx):
    """Windows mode, file-name and path mode: an escaped backslash written as a member of a bracket expression stands for the
    separator, so names that differ only in how they spell that separator get the same answer."""
    pats = ['a[\\\\]b', 'a[x\\\\]b', 'a[!\\\\]b', '[\\\\]', '@(a[\\\\]b)', '*[\\\\]b', 'a[\\\\]', 'a[\\\\][\\\\]b', '?(x)[\\\\]*']
    names = ['a/b', 'axb', 'a.b', '/', 'a/', '/b', 'a//b', 'ab', 'x/b']
    n = 0
    for pat in pats:
        for mod in (F, G):
            for extra in ((), ('CASE',), ('DOTMATCH',), ('IGNORECASE',)):
                flags = flags_of(('FORCEWIN', 'EXTMATCH') + extra)
                try:
                    m = mod.compile(pat, flags=flags)
                    for nm in names:
                        a, b = m.match(nm), m.match(nm.replace('/', '\\'))
                        n += 1
                        if a is not b:
                            ctx.disagree('Windows mode: an escaped backslash inside a bracket expression does not cover both spellings of the separator|'
                                         + ('glob' if mod is G else 'fnmatch'),
                                         {'api': mod.__name__.split('.')[-1], 'pattern': pat, 'flags': ['FORCEWIN', 'EXTMATCH'] + list(extra),
                                          'name': nm, 'slash_got': a, 'backslash_got': b, 'mode': 'bracket-backslash'})
                            break
                except Exception as e:  # noqa: BLE001
                    ctx.disagree(f'compile raised {type(e).__name__}', {'pattern': pat, 'mode': 'bracket-backslash'})
    ctx.evals(n)
    ctx.count('bracket_backslash_checks', n)


CASE_TREE = [('top', 'd', None), ('top/pkg', 'd', None), ('top/pkg/a.py', 'f', None), ('top/PKG', 'd', None), ('top/PKG/b.py', 'f', None),
             ('top/Pkg', 'd', None), ('top/Pkg/C.PY', 'f', None), ('x', 'd', None), ('x/pkg', 'd', None), ('x/pkg/d.py', 'f', None),
             ('README', 'f', None), ('readme', 'f', None), ('top/pkg/sub', 'd', None), ('top/PKG/SUB', 'd', None), ('top/PKG/SUB/e.py', 'f', None)]


def glob_case_tree(ctx):
    """The walker is in the same mode as the matcher: on a tree with case twins (this file system is case sensitive) glob() under
    IGNORECASE returns exactly the entries globmatch() accepts under IGNORECASE - every twin of a literal segment, first or not -
    and under CASE / no flag exactly the ones the case-sensitive globmatch() accepts."""
    from .. import tree as T
    pats = ['*/pkg/*.py', 'top/pkg/*.py', 'TOP/pkg/*', 'top/PKG/*', '*/pkg/', 'top/pkg', 'readme', 'ReadMe', 'top/p[k]g/*.py', 'top/pkg/sub/*.py',
            '*/pkg/sub/', '**/pkg/*.py', 'top/*/c.py', 'top/pkg/a.py', '*/PKG/sub/e.PY', 'x/PKG/*']
    fsets = [('IGNORECASE',), ('IGNORECASE', 'GLOBSTAR'), ('IGNORECASE', 'NOUNIQUE'), ('CASE',), (), ('IGNORECASE', 'CASE'), ('IGNORECASE', 'MARK')]
    entries = [(p, k == 'd') for p, k, _t in CASE_TREE]
    with T.Tree(CASE_TREE, 'c17t-') as tr:
        for pat in pats:
            for fs in fsets:
                flags = flags_of(fs) if fs else 0
                wit = {'tree': CASE_TREE, 'pattern': pat, 'flags': list(fs), 'mode': 'glob-case-tree'}
                with ctx.case(label=('glob-case-tree', pat, fs)):
                    try:
                        got = sorted({x.rstrip('/') for x in G.glob(pat, flags=flags, root_dir=tr.root)})
                        want = sorted(p for p, isdir in entries
                                      if G.globmatch(p + '/' if isdir else p, pat, flags=flags & ~G.MARK & ~G.NOUNIQUE) or
                                      (not pat.endswith('/') and G.globmatch(p, pat, flags=flags & ~G.MARK & ~G.NOUNIQUE)))
                    except Exception as e:  # noqa: BLE001
                        ctx.disagree(f'glob / globmatch raised {type(e).__name__}', dict(wit, exception=repr(e)[:200]))
                        continue
                    ctx.evals(len(entries) + 1)
                    ctx.count('glob_case_tree_checks')
                    if 'IGNORECASE' in fs and 'CASE' not in fs and 'NOUNIQUE' not in fs:
                        # the duplicate filter works on case-folded paths under a case-insensitive rule: of two entries whose whole
                        # paths differ only in case one may stand for both (C13: observed, not asserted) - compare modulo case
                        got, want = sorted({x.lower() for x in got}), sorted({x.lower() for x in want})
                        ctx.count('glob_case_tree_checks_modulo_case')
                    if got != want:
                        ctx.disagree('glob() on a tree with case twins differs from the entries globmatch() accepts in the same mode',
                                     dict(wit, glob=got, globmatch_accepts=want))
                    elif got:
                        ctx.mark_nontrivial(('glob-case-tree', pat, fs))


def run(ctx):
    quick = ctx.quick
    bare_drive_checks(ctx)
    if ctx.mine(1):
        glob_case_tree(ctx)
    if ctx.shard == 0:
        bracket_backslash_templates(ctx)
        simple_pairs_outside_ascii(ctx)
        caseless_text_templates(ctx)
    p = pool()
    idx = 0
    for n in (1, 2):
        for toks in gen.enum_sequences(p, n):
            idx += 1
            if n == 2 and (idx * 2654435761) % 100 >= (2 if quick else 40):
                continue
            if not ctx.mine(idx):
                continue
            if ctx.out_of_time():
                break
            rng = ctx.rng_for('e', idx)
            names, _ = gen.name_universe(toks, rng, maxlen=3, sigma_cap=4, derivations=6, fresh='c')
            with ctx.case(label=gen.ser(toks)):
                check_pattern(ctx, toks, False, ('EXTMATCH', 'DOTMATCH'), idx, names + ['a/B', 'A\\b'], bytes_too=(idx % 10 == 0))
                check_pattern(ctx, toks, True, ('EXTMATCH', 'DOTMATCH'), idx, names + ['a/B', 'x/a', 'a/'], bytes_too=False)
    k = 0
    limit = 100 if quick else 10 ** 9
    while k < limit and not ctx.out_of_time():
        k += 1
        rng = ctx.rng_for('r', ctx.shard, k)
        if k % 2:
            toks = gen.rand_tokens(rng, maxtok=rng.randint(1, 6), depth=rng.randint(0, 2), alpha='aB.x')
            if not toks or gen.ambiguous_adjacency(toks):
                continue
            names, _ = gen.name_universe(toks, rng, maxlen=3, sigma_cap=4, derivations=8)
            with ctx.case(label=gen.ser(toks)):
                check_pattern(ctx, toks, False, ('EXTMATCH',) + (('DOTMATCH',) if k % 4 == 1 else ()), k, names + ['a/B'], bytes_too=(k % 6 == 1))
        else:
            toks = gen.rand_path_tokens(rng, maxseg=rng.randint(1, 3), alpha='aB.x', depth=rng.randint(0, 2))
            if gen.ambiguous_adjacency(toks):
                continue
            extra = ('EXTMATCH',) + (('GLOBSTAR',) if k % 4 == 0 else ()) + (('DOTMATCH',) if k % 8 < 4 else ()) + \
                (('NODIR',) if k % 5 == 0 else ()) + (('MATCHBASE',) if k % 6 == 2 else ())
            with ctx.case(label=gen.ser(toks)):
                check_pattern(ctx, toks, True, extra, k, gen.path_universe(toks, rng, cap=120), bytes_too=(k % 6 == 0))
        if k % 3 == 0:
            # file-name mode knows no path segments, but under FORCEWIN `/` and `\` written anywhere (also inside groups)
            # still denote the same character class
            toks = gen.rand_tokens(rng, maxtok=rng.randint(2, 5), depth=rng.randint(1, 2), alpha='aB/x/')
            if toks and not gen.ambiguous_adjacency(toks) and not has_set(toks):
                names = []
                for _ in range(10):
                    d = gen.derive(rng, toks, 'aB/x')
                    if d:
                        names.append(d)
                        names.extend(sorted(gen.mutants(rng, d, 'aB/x', 2)))
                with ctx.case(label=gen.ser(toks)):
                    ctx.count('fnmatch_slash_patterns')
                    check_pattern(ctx, toks, False, ('EXTMATCH', 'DOTMATCH'), ('slash', k), names + ['a/B', 'a\\B', '/'], bytes_too=False)
        with ctx.case(label=('drive', k)):
            drive_checks(ctx, rng, k)
    ctx.count('random_asts', k)
    for c in ('drive_checks', 'bytes_checks', 'literal_exact_checks'):
        ctx.count(c, 0)


def replay(ctx, w):
    if w.get('mode') == 'glob-case-tree':
        glob_case_tree(ctx)
        return ctx.violations or None
    if w.get('mode') == 'caseless-text':
        caseless_text_templates(ctx)
        return ctx.violations or None
    if w.get('mode') == 'simple-pairs':
        simple_pairs_outside_ascii(ctx)
        return ctx.violations or None
    if w.get('mode') == 'bracket-backslash':
        bracket_backslash_templates(ctx)
        return ctx.violations or None
    import random
    if 'ast' in w:
        toks = w['ast']
        path_mode = w['api'] == 'glob'
        rng = random.Random(0)
        base = [w['name']] if 'name' in w else []
        base += gen.path_universe(toks, rng, cap=120) if path_mode else gen.name_universe(toks, rng, maxlen=3, sigma_cap=4)[0]
        check_pattern(ctx, toks, path_mode, tuple(w['extra_flags']), 0, base, bytes_too=True)
    else:
        for k in range(60):
            drive_checks(ctx, random.Random(k), k)
    return ctx.violations or None
