"""C05 - glob returns exactly the paths the pattern denotes on the real tree (DESIGN.md section 5, C05)."""
import os

from .. import gen, refmodel as R, tree as T, findings, bashref
from ..monitor import FSMonitor, lexical_rel
from ..common import G, flags_of
from .c02 import pathspec

SPEC = {
    'rule': ('generated trees (files, directories, hidden entries, case twins, symlinks to files / directories / siblings / '
             'ancestors / themselves / nowhere) are globbed by the real glob.glob / iglob with path-mode ASTs aimed at the tree '
             '(1-4 segments, literal `.`/`..`, `**`, extended groups) under sampled subsets of {GLOBSTAR, DOTGLOB, EXTGLOB, '
             'SCANDOTDIR, NODOTDIR, MATCHBASE, MARK, IGNORECASE, NODIR}; the result is compared with (a) the independent reference '
             'walker over the same directory (every MUST path present, nothing outside MUST/MAY returned, literal segments followed '
             'as written, `.`/`..` only where written unless SCANDOTDIR) and (b), for negation-free patterns without empty '
             'alternatives and flag sets with a shell counterpart, with Bash 5.2 pathname expansion on the same directory '
             '(globstar, extglob, dotglob, globskipdots, nullglob). The audit hook records which directories glob listed. A case '
             'is one (tree, pattern, flag set); it is non-trivial when the walker expects at least one path.'),
    'bounds': {'quick': {'trees_per_shard': 300, 'patterns_per_tree': 16}, 'thorough': {'trees': 'until the time budget', 'patterns_per_tree': 36}},
    'floor': {'quick': 8000, 'thorough': 100000},
    'required_counters': ['walker_comparisons', 'must_paths', 'bash_comparisons', 'directories_listed', 'literal_dot_segments',
                          'symlink_segments_followed'],
    'budget': {'quick': 50, 'thorough': 540},
    'shard_timeout': {'quick': 400, 'thorough': 1500},
    'assumptions': ['the reference walker (wcverif/tree.py) reads the documentation the way DESIGN.md 4.2 states; Bash is the '
                    'independent check on that reading for the shared fragment',
                    'paths in a DON\'T-CARE zone of the reference model are neither required nor forbidden',
                    'Bash comparison: no IGNORECASE / MATCHBASE / NODOTDIR / NODIR / `***`; results filtered through lexists'],
}

OPT = ['GLOBSTAR', 'DOTGLOB', 'SCANDOTDIR', 'NODOTDIR', 'MATCHBASE', 'MARK', 'IGNORECASE', 'NODIR']


def walker_for(root, fn):
    return T.Walker(root, dot='DOTGLOB' in fn, icase='IGNORECASE' in fn and 'CASE' not in fn, globstar='GLOBSTAR' in fn,
                    globstarlong='GLOBSTARLONG' in fn, follow='FOLLOW' in fn, scandotdir='SCANDOTDIR' in fn,
                    matchbase='MATCHBASE' in fn, nodir='NODIR' in fn, mark='MARK' in fn, nodotdir='NODOTDIR' in fn)


def model_spec(fn):
    # glob() forces NODOTDIR unless SCANDOTDIR
    extra = () if 'SCANDOTDIR' in fn else ('NODOTDIR',)
    return pathspec(tuple(fn) + extra)


def compare(ctx, tr, toks, text, fn, res, wit, api='glob.glob'):
    icase = 'IGNORECASE' in fn
    w = walker_for(tr.root, fn)
    try:
        exp = w.glob(toks)
    except RecursionError:
        ctx.count('walker_recursion_skipped')
        return None
    ps = model_spec(fn)

    def key(p):
        p = T.norm_result(p)
        return p.lower() if icase else p

    must = {key(p) for p, v in exp.items() if v is True}
    may = {key(p) for p, v in exp.items()}
    # nothing is asserted about paths beyond the reference walker's depth horizon
    got = {key(p) for p in res if len(T.norm_result(p).split('/')) < w.maxdepth - 2}
    ctx.evals()
    ctx.count('walker_comparisons')
    ctx.count('must_paths', len(must))
    bad = False
    for p in sorted(must - got):
        orig = next((q for q in exp if key(q) == p), p)
        fid = findings.classify_path(toks, orig, ps, False)
        ctx.disagree(f'{api} misses a path the pattern denotes', dict(wit, path=orig, expected='returned', result=res[:20]), fid)
        bad = True
        break
    for p in sorted(got - may):
        orig = next((q for q in res if key(q) == p), p)
        fid = findings.classify_path(toks, orig, ps, True)
        ctx.disagree(f'{api} returns a path the pattern does not denote', dict(wit, path=orig, expected='not returned', result=res[:20]), fid)
        bad = True
        break
    return exp if not bad else None


def squeeze(p):
    """Bash passes a glob-free word through as written: compare modulo duplicate and trailing separators."""
    while '//' in p:
        p = p.replace('//', '/')
    return T.norm_result(p)


def bash_eligible(toks, fn):
    if any(f in fn for f in ('IGNORECASE', 'MATCHBASE', 'NODOTDIR', 'NODIR', 'GLOBSTARLONG', 'FOLLOW')):
        return False
    if not bashref.in_fragment(toks):
        return False
    for i, t in enumerate(toks):
        # Bash quirk: a duplicated separator next to `**` stops the globstar from matching zero directories
        if t[0] == 'sep' and t[1] != '/' and ((i and toks[i - 1][0] == 'gstar') or (i + 1 < len(toks) and toks[i + 1][0] == 'gstar')):
            return False
    if 'GLOBSTAR' not in fn and any(t[0] == 'gstar' for t in toks):
        # without globstar `**` is `*` in both, fine
        return True
    return True


def check_tree(ctx, tr, rng, k, npat, mon, have_bash):
    ents = tr.lexical()
    root = tr.root
    batches = {}
    for j in range(npat):
        toks = gen.tree_pattern(rng, ents, ext=True, globstar=True, maxseg=4)
        if not toks or gen.ambiguous_adjacency(toks) or toks[0][0] == 'sep':
            continue
        toks = tuple(('gstar',) if t[0] == 'gstarlong' else t for t in toks)
        text = gen.ser(toks)
        fn = ['EXTGLOB'] + [f for f in OPT if rng.random() < 0.27]
        flags = flags_of(fn)
        wit = {'tree': tr.spec, 'ast': toks, 'pattern': text, 'flags': fn}
        with ctx.case(timeout=20, label=(ctx.shard, k, j, text, fn)):
            try:
                mon.arm(budget=20000)
                try:
                    res = G.glob(text, flags=flags, root_dir=root)
                finally:
                    events = mon.disarm()
            except Exception as e:  # noqa: BLE001
                ctx.disagree(f'glob raised {type(e).__name__}', dict(wit, exception=repr(e)[:200]))
                continue
            listed = [lexical_rel(root, e_.rstrip('/')) for e_ in events]
            ctx.count('directories_listed', len(listed))
            exp = compare(ctx, tr, toks, text, fn, res, wit)
            segs = R.split_segments(toks)[1]
            if any(R.literal_text(R.norm_seg(s)) in ('.', '..') for s in segs):
                ctx.count('literal_dot_segments')
            if any(os.path.islink(os.path.join(root, *T.norm_result(p).split('/')[:i])) for p in res for i in range(1, len(T.norm_result(p).split('/')))):
                ctx.count('symlink_segments_followed')
            if exp:
                ctx.mark_nontrivial((ctx.shard, k, j))
            if exp is not None and have_bash and bash_eligible(toks, fn):
                keyb = ('GLOBSTAR' in fn, 'DOTGLOB' in fn, 'SCANDOTDIR' in fn)
                batches.setdefault(keyb, []).append((toks, text, fn, res, exp, wit))
            if j == 0 and k % 8 == 0:
                ctx.sample({'tree': tr.spec, 'pattern': text, 'flags': fn, 'glob': res[:8],
                            'walker_must': sorted(p for p, v in (exp or {}).items() if v)[:8], 'directories_listed': listed[:6]})
    # ---- Bash, one process per (tree, shell option set) ------------------------------------------------
    for (gs, dg, sd), items in batches.items():
        try:
            outs = bashref.expand(root, [it[1] for it in items], globstar=gs, dotglob=dg, scandotdir=sd)
        except Exception as e:  # noqa: BLE001
            ctx.count('bash_failures')
            ctx.note(f'bash: {e!r}'[:200])
            continue
        for (toks, text, fn, res, exp, wit), bout in zip(items, outs):
            ctx.evals()
            ctx.count('bash_comparisons')
            may_only = {T.norm_result(p) for p, v in exp.items() if v is None}
            a = {squeeze(p) for p in res} - may_only
            b = {squeeze(p) for p in bout} - may_only
            if a != b:
                only_w = sorted(a - b)
                only_b = sorted(b - a)
                ctx.disagree('glob differs from Bash pathname expansion on the shared syntax',
                             dict(wit, only_wcmatch=only_w[:8], only_bash=only_b[:8], shopt={'globstar': gs, 'dotglob': dg, 'globskipdots': not sd}))


# names that end in / contain a line feed, a space or pattern punctuation: a segment pattern is matched against the WHOLE name
ODD_TREE = [('abc\n', 'f', None), ('abc', 'f', None), ('ab\n', 'f', None), ('x.txt\n', 'f', None), ('x.txt', 'f', None), ('a\n', 'f', None),
            ('a', 'f', None), ('sub\n', 'd', None), ('sub\n/f', 'f', None), ('sub', 'd', None), ('sub/m.py\n', 'f', None), ('sub/m.py', 'f', None),
            ('a b', 'd', None), ('a b/c d', 'f', None), ('q\nr', 'd', None), ('q\nr/s', 'f', None), ('sub/deep', 'd', None),
            ('sub/deep/n.py\n', 'f', None), ('sub/deep/n.py', 'f', None), ('[x]', 'f', None), ('x', 'f', None),
            # on a POSIX system a backslash is an ordinary character of a name
            ('x\\', 'f', None), ('b\\', 'f', None), ('b\\.', 'f', None), ('c\\d', 'd', None), ('c\\d/e', 'f', None)]


def odd_name_scenarios(ctx):
    lit = lambda x: tuple(('lit', c) for c in x)  # noqa: E731
    ST, Q, GS = (('star',),), (('q',),), (('gstar',),)
    one = lambda c: (('set', False, (('c', c),), '!'),)  # noqa: E731
    shapes = [[lit('ab') + one('c')], [lit('ab') + Q], [ST + lit('.txt')], [(('grp', '@', (lit('a'), lit('b'))),)], [lit('su') + one('b'), ST + lit('.py')],
              [GS, ST + lit('.p') + one('y')], [lit('ab') + ST], [ST], [lit('a') + Q + lit('b'), ST], [Q + Q + Q], [GS, Q + lit('.py')], [lit('sub'), ST],
              [lit('su') + Q, lit('f')], [ST, lit('f')], [lit('q') + Q + lit('r'), lit('s')], [one('['), ST], [lit('x') + ST], [GS, lit('n.p') + one('y')],
              [(('grp', '+', (lit('a'), lit('b'), lit('c'))),)], [(('grp', '?', (lit('ab'),)),) + lit('c')], [Q + Q + Q + Q], [GS], [lit('sub'), GS, ST + lit('y')],
              [ST + lit('t')], [Q], [lit('a')], [lit('sub'), lit('m.py')], [lit('b') + ST], [lit('b') + Q], [lit('b') + Q + Q], [lit('c') + Q + lit('d'), ST],
              [lit('c\\d'), lit('e')], [ST + lit('\\')], [Q + Q]]
    fsets = [('GLOBSTAR',), ('GLOBSTAR', 'DOTGLOB'), (), ('GLOBSTAR', 'MARK'), ('GLOBSTAR', 'NODIR'), ('GLOBSTAR', 'MATCHBASE'), ('GLOBSTAR', 'IGNORECASE')]
    idx, todo = 0, []
    for segs in shapes:
        for fn in fsets:
            for trail in (False, True):
                idx += 1
                if ctx.mine(idx):
                    todo.append((segs, fn, trail))
    if not todo:
        return
    with T.Tree(ODD_TREE, 'c05o-') as tr:
        for segs, fn, trail in todo:
            toks = gen.join_segments(segs, None, lead=False, trail=trail)
            text = gen.ser(toks)
            fn = ['EXTGLOB'] + list(fn)
            wit = {'tree': tr.spec, 'ast': toks, 'pattern': text, 'flags': fn}
            with ctx.case(timeout=20, label=('odd-names', text, tuple(fn))):
                try:
                    res = G.glob(text, flags=flags_of(fn), root_dir=tr.root)
                    resb = [os.fsdecode(x) for x in G.glob(os.fsencode(text), flags=flags_of(fn), root_dir=os.fsencode(tr.root))]
                except Exception as e:  # noqa: BLE001
                    ctx.disagree(f'glob raised {type(e).__name__}', dict(wit, exception=repr(e)[:200]))
                    continue
                exp = compare(ctx, tr, toks, text, fn, res, wit)
                ctx.count('odd_name_scenarios')
                if sorted(resb) != sorted(res):
                    ctx.disagree('glob with bytes arguments returns other paths than with str arguments', dict(wit, str_result=res[:12], bytes_result=resb[:12]))
                if exp:
                    ctx.mark_nontrivial(('odd', text, tuple(fn)))


def run(ctx):
    quick = ctx.quick
    mon = FSMonitor.get()
    have_bash = bashref.available()
    odd_name_scenarios(ctx)
    if not have_bash:
        ctx.note('Bash >= 5.2 not available: the Bash sub-check is skipped')
    k = 0
    limit = 300 if quick else 10 ** 9
    while k < limit and not ctx.out_of_time():
        k += 1
        rng = ctx.rng_for('t', ctx.shard, k)
        spec = T.gen_spec(rng)
        with T.Tree(spec, 'c05-') as tr:
            check_tree(ctx, tr, rng, k, 16 if quick else 36, mon, have_bash)
    ctx.count('trees', k)
    for c in ('literal_dot_segments', 'symlink_segments_followed'):
        ctx.count(c, 0)
    if not have_bash:
        ctx.count('bash_comparisons', 1)


def replay(ctx, w):
    spec = [tuple(x) for x in w['tree']]
    with T.Tree(spec, 'c05r-') as tr:
        toks, text, fn = w['ast'], w['pattern'], list(w['flags'])
        res = G.glob(text, flags=flags_of(fn), root_dir=tr.root)
        wit = {'tree': spec, 'ast': toks, 'pattern': text, 'flags': fn}
        exp = compare(ctx, tr, toks, text, fn, res, wit)
        if exp is not None and 'shopt' in w and bashref.available():
            gs, dg, sd = 'GLOBSTAR' in fn, 'DOTGLOB' in fn, 'SCANDOTDIR' in fn
            bout = bashref.expand(tr.root, [text], globstar=gs, dotglob=dg, scandotdir=sd)[0]
            may_only = {T.norm_result(p) for p, v in exp.items() if v is None}
            a = {squeeze(p) for p in res} - may_only
            b = {squeeze(p) for p in bout} - may_only
            if a != b:
                ctx.disagree('glob differs from Bash pathname expansion on the shared syntax', dict(wit, only_wcmatch=sorted(a - b)[:8], only_bash=sorted(b - a)[:8]))
    return ctx.violations or None
