"""C11 - the pattern limit bounds expansion work in every API, default 1000 (DESIGN.md section 5, C11)."""
import os
import shutil

import bracex

from .. import env
from ..common import F, G, P
from wcmatch import pathlib as WP, wcmatch as WM

SPEC = {
    'rule': ('1-3 inclusion and 0-2 exclusion patterns are built from nested brace sets, ranges and `|` splits whose '
             'distinct (D) and total (T) expansion counts are known by construction, around the boundary of each limit '
             'L in {1,2,3,5,32,33,1000,1001} and 0, and handed to all 15 entry points; the expansion monitor (a counting '
             'wrapper around bracex.iexpand) records the items pulled per call. D > L > 0 must raise PatternLimitException, '
             'T <= L or L = 0 must not, items pulled <= L + 1 + number of patterns; an omitted limit must behave as 1000. '
             'A case is one (entry point, pattern list, exclusion list, L); it is non-trivial when D or T lies within 1 of L '
             'or the expansion is at least 1000 x L.'),
    'bounds': {'quick': {'random_compositions_per_shard': 40}, 'thorough': {'random_compositions': 'until the time budget'}},
    'floor': {'quick': 3000, 'thorough': 20000},
    'required_counters': ['must_raise', 'must_not_raise', 'expansion_items_observed', 'default_limit_checks',
                          'fail_fast_checks'],
    'budget': {'quick': 40, 'thorough': 420},
    'shard_timeout': {'quick': 400, 'thorough': 1500},
    'exhaustive': False,
    'assumptions': ['nothing is asserted for D <= L < T (duplicates may or may not count) nor for negative limits',
                    'the slack on expansion work is one look-ahead item per input pattern'],
}

LIMITS = [1, 2, 3, 5, 32, 33, 1000, 1001]


class Counter:
    """Expansion monitor: wraps bracex.iexpand (looked up by wcmatch at call time)."""

    def __init__(self):
        self.items = 0
        self.calls = 0
        self.limits = []
        self.orig = bracex.iexpand

    def install(self):
        orig = self.orig
        me = self

        def counting(*a, **kw):
            me.calls += 1
            me.limits.append(kw.get('limit', a[2] if len(a) > 2 else None))
            for x in orig(*a, **kw):
                me.items += 1
                yield x
        bracex.iexpand = counting

    def remove(self):
        bracex.iexpand = self.orig

    def reset(self):
        self.items = 0
        self.calls = 0
        self.limits = []


def pat_with(n, style, tag):
    """A pattern text with exactly n distinct expansions (n >= 1); returns (text, needs)."""
    if n == 1:
        return f'{tag}x', set()
    if style == 0:
        return f'{tag}{{1..{n}}}', {'BRACE'}
    if style == 1:
        if n > 400:
            return f'{tag}{{1..{n}}}', {'BRACE'}
        return '|'.join(f'{tag}{i}' for i in range(n)), {'SPLIT'}
    if style == 2:
        # nested: {a,b}{1..k} (+ remainder by split)
        k, r = divmod(n, 2)
        base = f'{tag}{{a,b}}{{1..{k}}}' if k > 1 else f'{tag}{{a,b}}'
        if k <= 1:
            return (f'{tag}{{1..{n}}}', {'BRACE'})
        if r:
            return f'{tag}{{{{a,b}}{{1..{k}}},z}}', {'BRACE'}
        return base, {'BRACE'}
    # style 3: set of literals
    if n > 300:
        return f'{tag}{{1..{n}}}', {'BRACE'}
    return f'{tag}{{' + ','.join(f'v{i}' for i in range(n)) + '}', {'BRACE'}


def with_dups(n, extra, tag):
    """n distinct expansions plus `extra` duplicates (total n + extra)."""
    items = [f'v{i}' for i in range(n)] + ['v0'] * extra
    return f'{tag}{{' + ','.join(items) + '}' if len(items) > 1 else f'{tag}v0', {'BRACE'}


ENTRY = ['fnmatch.fnmatch', 'fnmatch.filter', 'fnmatch.translate', 'fnmatch.compile', 'glob.globmatch', 'glob.globfilter',
         'glob.translate', 'glob.compile', 'glob.glob', 'glob.iglob', 'PurePath.match', 'PurePath.globmatch', 'Path.glob',
         'Path.rglob', 'WcMatch', 'WcMatch.exclude', 'fnmatch.filter(no names)', 'glob.globfilter(no names)',
         'PurePath.full_match', 'Path.match', 'Path.globmatch', 'Path.full_match', 'PureWindowsPath.full_match']


def invoke(entry, incl, excl, flagnames, limit, root):
    """Call one entry point. limit None = omitted."""
    kw = {} if limit is None else {'limit': limit}
    if entry.startswith('fnmatch.'):
        fl = 0
        for f in flagnames:
            fl |= getattr(F, f)
        if excl:
            kw['exclude'] = excl
        if entry == 'fnmatch.fnmatch':
            return F.fnmatch('a', incl, flags=fl, **kw)
        if entry == 'fnmatch.filter':
            return F.filter(['a', 'b'], incl, flags=fl, **kw)
        if entry == 'fnmatch.filter(no names)':
            return F.filter([], incl, flags=fl, **kw)       # the patterns are checked whether or not there is a name to match
        if entry == 'fnmatch.translate':
            return F.translate(incl, flags=fl, **kw)
        return F.compile(incl, flags=fl, **kw)
    if entry == 'WcMatch.exclude':
        # the folder-exclude pattern is a pattern list of its own, bounded by the same limit
        fl = (WM.BRACE if 'BRACE' in flagnames else 0) | WM.RECURSIVE
        pat = '|'.join(list(incl))
        if limit is None:
            return WM.WcMatch(root, '*', pat, fl).match()
        return WM.WcMatch(root, '*', pat, fl, limit).match()
    if entry == 'WcMatch':
        fl = WM.BRACE if 'BRACE' in flagnames else 0
        # `|` always splits, `!` always negates; exclusions go inline
        pat = '|'.join(list(incl) + ['!' + e for e in (excl or [])])
        if limit is None:
            return WM.WcMatch(root, pat, None, fl).match()
        return WM.WcMatch(root, pat, None, fl, limit).match()
    fl = 0
    for f in flagnames:
        fl |= getattr(G, f)
    if excl:
        kw['exclude'] = excl
    if entry == 'glob.globmatch':
        return G.globmatch('a', incl, flags=fl, **kw)
    if entry == 'glob.globfilter':
        return G.globfilter(['a', 'b'], incl, flags=fl, **kw)
    if entry == 'glob.globfilter(no names)':
        return G.globfilter((), incl, flags=fl, **kw)
    if entry == 'glob.translate':
        return G.translate(incl, flags=fl, **kw)
    if entry == 'glob.compile':
        return G.compile(incl, flags=fl, **kw)
    if entry == 'glob.glob':
        return G.glob(incl, flags=fl, root_dir=root, **kw)
    if entry == 'glob.iglob':
        return list(G.iglob(incl, flags=fl, root_dir=root, **kw))
    if entry == 'PurePath.match':
        return WP.PurePath('a').match(incl, flags=fl, **kw)
    if entry == 'PurePath.globmatch':
        return WP.PurePath('a').globmatch(incl, flags=fl, **kw)
    if entry == 'PurePath.full_match':
        return WP.PurePath('a').full_match(incl, flags=fl, **kw)
    if entry == 'PureWindowsPath.full_match':
        return WP.PureWindowsPath('a').full_match(incl, flags=fl, **kw)
    if entry == 'Path.match':
        return WP.Path(root, 'a').match(incl, flags=fl, **kw)
    if entry == 'Path.globmatch':
        return WP.Path(root, 'a').globmatch(incl, flags=fl, **kw)
    if entry == 'Path.full_match':
        return WP.Path(root, 'a').full_match(incl, flags=fl, **kw)
    if entry == 'Path.glob':
        return list(WP.Path(root).glob(incl, flags=fl, **kw))
    if entry == 'Path.rglob':
        return list(WP.Path(root).rglob(incl, flags=fl, **kw))
    raise ValueError(entry)


def classify(entry, incl_counts, excl_counts, L, raised, items, inline):
    """Attribute to a known finding by mechanism."""
    ei = sum(d for d, _ in excl_counts)
    if not raised and L and L > 0:
        if entry == 'WcMatch':
            return None
        if excl_counts and not inline and ei == L and entry not in ('glob.glob', 'glob.iglob', 'Path.glob', 'Path.rglob'):
            return 'KF-LIMIT-EXCLUDE-BUDGET'
        if excl_counts and not inline and entry in ('glob.glob', 'glob.iglob', 'Path.glob', 'Path.rglob'):
            if sum(d for d, _ in incl_counts) <= L and ei <= L:
                return 'KF-GLOB-LIMIT-SPLIT-COUNT'
    return None


def one_case(ctx, mon, entry, incl_spec, excl_spec, L, root, inline=False, key=None):
    """incl_spec/excl_spec: lists of (text, needs, distinct, total)."""
    needs = set()
    for _t, nd, _d, _tt in incl_spec + excl_spec:
        needs |= nd
    if entry == 'WcMatch.exclude' and excl_spec:
        return
    if entry in ('WcMatch', 'WcMatch.exclude'):
        needs.discard('SPLIT')
        inline = True
        if len(incl_spec) + len(excl_spec) > 1 and 'BRACE' in needs:
            # WcMatch joins everything into one `|` text: braces would multiply the other pieces (counts unknown here)
            return
    incl = [t for t, _n, _d, _tt in incl_spec]
    excl = [t for t, _n, _d, _tt in excl_spec]
    flagnames = sorted(needs)
    if inline and excl and entry not in ('WcMatch', 'WcMatch.exclude'):
        flagnames = sorted(needs | {'NEGATE'})
        incl_arg = incl + ['!' + e for e in excl]
        excl_arg = None
    else:
        incl_arg, excl_arg = incl, (excl or None)
    D = sum(d for _t, _n, d, _tt in incl_spec + excl_spec)
    T = sum(tt for _t, _n, _d, tt in incl_spec + excl_spec)
    npats = len(incl_spec) + len(excl_spec)
    if entry == 'WcMatch.exclude':
        # the file pattern `*` is compiled besides the list under test: whether it shares the budget is not asserted
        T += 1
        npats += 1
    mon.reset()
    raised = None
    try:
        invoke(entry, incl_arg, excl_arg, flagnames, L, root)
    except P.PatternLimitException:
        raised = True
    except Exception as e:  # noqa: BLE001
        raised = f'{type(e).__name__}'
    else:
        raised = False
    items = mon.items
    ctx.evals()
    ctx.count('expansion_items_observed', items)
    eff = 1000 if L is None else L
    wit = {'entry': entry, 'inclusions': [t[:60] for t in incl], 'exclusions': [t[:60] for t in excl], 'inline': inline,
           'flags': flagnames, 'limit': L, 'distinct': D, 'total': T, 'raised': raised, 'items_pulled': items}
    fid = classify(entry, [(d, tt) for _t, _n, d, tt in incl_spec], [(d, tt) for _t, _n, d, tt in excl_spec], eff, raised,
                   items, inline)
    if isinstance(raised, str):
        ctx.disagree(f'{entry}: unexpected {raised}', wit)
        return
    if eff > 0 and D > eff:
        ctx.count('must_raise')
        if not raised:
            if entry == 'WcMatch' and L is None:
                fid = None
            ctx.disagree(f'{entry}: {"default limit" if L is None else "limit"} not enforced (D > L, no exception)', wit, fid)
    elif eff == 0 or T <= eff:
        ctx.count('must_not_raise')
        if raised:
            fid2 = 'KF-WCMATCH-LIMIT-DEFAULT' if (entry == 'WcMatch' and L is None and T > 32) else None
            ctx.disagree(f'{entry}: PatternLimitException although T <= L' + (' (omitted limit)' if L is None else ''), wit, fid2)
    else:
        ctx.count('gray_zone')
    if eff > 0 and any((lim is None or lim <= 0 or lim > eff) for lim in mon.limits):
        # bracex is handed no limit (0 = unlimited) or a larger one: a big brace range is then materialised inside bracex
        # before wcmatch's own count can stop it, whatever is raised afterwards
        ctx.disagree(f'{entry}: brace expansion is started without an effective limit (expansion work not bounded by L)',
                     dict(wit, limits_passed_to_bracex=[repr(x) for x in mon.limits[:8]]))
    if eff > 0 and items > eff + 1 + npats:
        ctx.disagree(f'{entry}: expansion work exceeds L+1 (+1 per pattern)', wit, fid)
    if abs(D - eff) <= 1 or abs(T - eff) <= 1 or T >= 1000 * max(eff, 1):
        ctx.mark_nontrivial(key or (entry, tuple(incl), tuple(excl), L, inline))


def specs_around(L, style, tag='p'):
    """Single patterns with n in {L-1, L, L+1} distinct expansions."""
    for n in (L - 1, L, L + 1):
        if n >= 1:
            t, nd = pat_with(n, style, tag)
            yield (t, nd, n, n)


def run(ctx):
    quick = ctx.quick
    root = env.mkscratch('c11-')
    open(os.path.join(root, 'a'), 'w').close()
    mon = Counter()
    mon.install()
    idx = 0
    try:
        for ei, entry in enumerate(ENTRY):
            for L in LIMITS:
                for style in range(4):
                    if L >= 1000 and style in (1, 3):
                        continue
                    idx += 1
                    if not ctx.mine(idx):
                        continue
                    with ctx.case(timeout=60, label=(entry, L, style)):
                        # (1) one inclusion around the boundary
                        for sp in specs_around(L, style):
                            one_case(ctx, mon, entry, [sp], [], L, root)
                        # (2) two inclusions splitting the count, + duplicates (gray zone / T <= L)
                        if L >= 2:
                            a, na = pat_with(max(L // 2, 1), style, 'a')
                            b, nb = pat_with(L - max(L // 2, 1), style, 'b') if L - max(L // 2, 1) >= 1 else ('bx', set())
                            da, db = max(L // 2, 1), max(L - max(L // 2, 1), 1)
                            one_case(ctx, mon, entry, [(a, na, da, da), (b, nb, db, db)], [], L, root)
                            c, nc = pat_with(2, 0, 'c')
                            one_case(ctx, mon, entry, [(a, na, da, da), (b, nb, db, db), (c, nc, 2, 2)], [], L, root)
                        if L <= 33:
                            d, nd = with_dups(max(L - 1, 1), 3, 'd')
                            one_case(ctx, mon, entry, [(d, nd, max(L - 1, 1), max(L - 1, 1) + 3)], [], L, root)
                            d, nd = with_dups(L + 1, 2, 'd')
                            one_case(ctx, mon, entry, [(d, nd, L + 1, L + 3)], [], L, root)
                        # (3) exclusions: exclude= and inline negation
                        for ne in (1, L - 1, L, L + 1):
                            if ne < 1 or (L >= 1000 and ne not in (1, L)):
                                continue
                            e, nde = pat_with(ne, 0 if style in (1,) else style, 'e')
                            if 'SPLIT' in nde and entry == 'WcMatch':
                                continue
                            for ni in (1, 2, L - ne, L - ne + 1):
                                if ni < 1:
                                    continue
                                i_, ndi = pat_with(ni, style, 'i')
                                for inline in (False, True):
                                    if inline and ('SPLIT' in nde):
                                        continue
                                    one_case(ctx, mon, entry, [(i_, ndi, ni, ni)], [(e, nde, ne, ne)], L, root, inline=inline)
                        # (3b) budget used up exactly by the first pattern, then a big range / more patterns
                        e1, n1 = pat_with(L, style, 'u')
                        one_case(ctx, mon, entry, [(e1, n1, L, L), ('{1..300000}', {'BRACE'}, 300000, 300000)], [], L, root)
                        one_case(ctx, mon, entry, [(e1, n1, L, L), ('w1', set(), 1, 1), ('w2', set(), 1, 1)], [], L, root)
                        one_case(ctx, mon, entry, [(e1, n1, L, L)], [('{1..300000}', {'BRACE'}, 300000, 300000)], L, root)
                        # (4) fail fast on huge expansions
                        for big in (f'{{1..{1000 * L}}}', '{1..100000000}', '{a,b}{1..50000000}'):
                            nbig = 1000 * L if big.startswith('{1..1') and big != '{1..100000000}' else 100000000
                            one_case(ctx, mon, entry, [(big, {'BRACE'}, nbig, nbig)], [], L, root)
                            ctx.count('fail_fast_checks')
                        one_case(ctx, mon, entry, [('x', set(), 1, 1)], [('{1..100000000}', {'BRACE'}, 10 ** 8, 10 ** 8)], L, root)
            # (5) limit = 0 disables the check; omitted limit = 1000
            idx += 1
            if ctx.mine(idx):
                with ctx.case(timeout=120, label=(entry, 'defaults')):
                    t, nd = pat_with(1500, 0, 'z')
                    one_case(ctx, mon, entry, [(t, nd, 1500, 1500)], [], 0, root)
                    # limit=0 stays "no limit" when exclusions are present (exclude= and inline), small and large
                    for inline in (False, True):
                        one_case(ctx, mon, entry, [('y{a,b}', {'BRACE'}, 2, 2)], [('e1', set(), 1, 1)], 0, root, inline=inline)
                        one_case(ctx, mon, entry, [(t, nd, 1500, 1500)], [('e{1..3}', {'BRACE'}, 3, 3), ('f1', set(), 1, 1)], 0, root, inline=inline)
                        one_case(ctx, mon, entry, [('y1', set(), 1, 1)], [(t, nd, 1500, 1500)], 0, root, inline=inline)
                    for n in (999, 1000, 1001, 1002):
                        t, nd = pat_with(n, 0, 'q')
                        one_case(ctx, mon, entry, [(t, nd, n, n)], [], None, root)
                        ctx.count('default_limit_checks')
                    t, nd = pat_with(500, 0, 'q')
                    t2, nd2 = pat_with(501, 2, 'r')
                    one_case(ctx, mon, entry, [(t, nd, 500, 500), (t2, nd2, 501, 501)], [], None, root)
                    one_case(ctx, mon, entry, [(t, nd, 500, 500)], [(t2, nd2, 501, 501)], None, root)
            # (6) `|` characters that split nothing (inside a group, inside a bracket, escaped) are not patterns; and lists of three and
            # more entries in which a later brace expansion still fits what the earlier entries left
            idx += 1
            if ctx.mine(idx):
                with ctx.case(timeout=120, label=(entry, 'non-splitting pipes, longer lists')):
                    quiet = [('[|]x|y[|]', {'SPLIT'}, 2, 2), ('a\\|b|c', {'SPLIT'}, 2, 2), ('[|][|][|][|]', {'SPLIT'}, 1, 1), ('a[|||]|b[|]|c', {'SPLIT'}, 3, 3)]
                    if not entry.startswith('WcMatch'):
                        quiet += [('@(a|b|c)', {'SPLIT', 'EXTMATCH'}, 1, 1), ('@(a|b)|+(c|d|e)', {'SPLIT', 'EXTMATCH'}, 2, 2), ('!(a|b|c|d)x', {'SPLIT', 'EXTMATCH'}, 1, 1)]
                    for sp in quiet:
                        for L6 in (sp[3], sp[3] + 1, sp[3] - 1, 3, 5):
                            if L6 >= 1:
                                one_case(ctx, mon, entry, [sp], [], L6, root)
                                one_case(ctx, mon, entry, [('q1', set(), 1, 1), sp], [], L6 + 1, root)
                                if not entry.startswith('WcMatch'):
                                    one_case(ctx, mon, entry, [('q1', set(), 1, 1)], [sp], L6 + 1, root)
                                ctx.count('non_splitting_pipe_cases')
                    # empty pieces of a SPLIT text are patterns like any other (6 pieces, 4 of them distinct)
                    emp = ('a||b||c|', {'SPLIT'}, 4, 6)
                    for L6 in (3, 6, 7, 2):
                        one_case(ctx, mon, entry, [emp], [], L6, root)
                        if not entry.startswith('WcMatch'):
                            one_case(ctx, mon, entry, [('q1', set(), 1, 1)], [emp], L6 + 1, root)
                        ctx.count('empty_piece_cases')
                    one_case(ctx, mon, entry, [('|' * 1200, {'SPLIT'}, 1, 1201)], [], None, root)
                    # exclusions alone under NEGATEALL: the implicit match-everything inclusion is not one of the caller's patterns
                    if not entry.startswith('WcMatch'):
                        for ne in (1, 3, 5):
                            ex_ = ('e{%s}' % ','.join('v%d' % i for i in range(ne)), {'BRACE', 'NEGATEALL'}, ne, ne) if ne > 1 else ('e1', {'NEGATEALL'}, 1, 1)
                            for L6 in (ne, ne + 1, ne - 1):
                                if L6 >= 1:
                                    one_case(ctx, mon, entry, [], [ex_], L6, root, inline=True)
                                    ctx.count('negateall_limit_cases')
                    B = lambda t, n: ('%s{%s}' % (t, ','.join('v%d' % i for i in range(n))), {'BRACE'}, n, n)  # noqa: E731
                    for lst, L6 in (([B('a', 2), ('c', set(), 1, 1), B('d', 2)], 5), ([B('a', 2), B('c', 2), B('e', 3)], 8), ([B('a', 2), B('c', 2), B('e', 3)], 7),
                                    ([B('a', 2), B('c', 2), B('e', 3)], 6), ([B('a', 3), ('c', set(), 1, 1), ('d', set(), 1, 1), B('e', 4)], 9),
                                    ([B('a', 300), B('c', 300), B('e', 400)], None), ([B('a', 300), B('c', 300), B('e', 401)], None),
                                    ([('a', set(), 1, 1), ('b', set(), 1, 1), ('c', set(), 1, 1), B('d', 5)], 8)):
                        one_case(ctx, mon, entry, lst, [], L6, root)
                        if not entry.startswith('WcMatch') and len(lst) >= 3:
                            one_case(ctx, mon, entry, lst[:2], lst[2:], L6, root)
                            one_case(ctx, mon, entry, lst[:1], lst[1:], L6, root, inline=True)
                        ctx.count('longer_list_cases')
                    one_case(ctx, mon, entry, [('{1..100000000}', {'BRACE'}, 10 ** 8, 10 ** 8)], [], None, root)
                    ctx.count('default_limit_checks', 3)
                    ctx.sample({'entry': entry, 'example': 'q{1..1001} with the limit omitted must raise; q{1..1000} must not'})
        for name in ('default_limit_checks', 'fail_fast_checks'):
            ctx.count(name, 0)
        # (6) random compositions
        k = 0
        limit = 40 if quick else 10 ** 9
        while k < limit and not ctx.out_of_time():
            k += 1
            rng = ctx.rng_for('rand', ctx.shard, k)
            entry = rng.choice(ENTRY)
            L = rng.choice(LIMITS[:6] + [7, 10, 64])
            incl, excl = [], []
            for j in range(rng.randint(1, 3)):
                n = rng.choice([1, 2, max(L // 2, 1), L, L + 1, max(L - 1, 1)])
                t, nd = pat_with(n, rng.randrange(4), f'i{j}')
                incl.append((t, nd, n, n))
            for j in range(rng.randint(0, 2)):
                n = rng.choice([1, 2, max(L // 2, 1), L, max(L - 1, 1)])
                t, nd = pat_with(n, rng.choice([0, 2, 3]), f'e{j}')
                excl.append((t, nd, n, n))
            if entry == 'WcMatch' and any('SPLIT' in nd for _t, nd, _d, _tt in excl):
                continue
            with ctx.case(timeout=60, label=('rand', k)):
                one_case(ctx, mon, entry, incl, excl, L, root, inline=rng.random() < 0.4 and not any('SPLIT' in nd for _t, nd, _d, _tt in excl))
        ctx.count('random_compositions', k)
    finally:
        mon.remove()
        shutil.rmtree(root, ignore_errors=True)


def replay(ctx, w):
    root = env.mkscratch('c11-')
    open(os.path.join(root, 'a'), 'w').close()
    mon = Counter()
    mon.install()
    try:
        needs = set(w['flags']) - {'NEGATE'}
        incl = [(t, needs, 0, 0) for t in w['inclusions']]
        # counts are recomputed by brute force for the replay
        def cnt(t):
            fl = 0
            for f in needs:
                fl |= getattr(F, f)
            xs = list(P.expand(t, fl, 0)) if '100000000' not in t and '50000000' not in t else None
            return (len(set(xs)), len(xs)) if xs is not None else (10 ** 8, 10 ** 8)
        incl = [(t, needs) + cnt(t) for t in w['inclusions']]
        excl = [(t, needs) + cnt(t) for t in w['exclusions']]
        one_case(ctx, mon, w['entry'], incl, excl, w['limit'], root, inline=w['inline'])
    finally:
        mon.remove()
        shutil.rmtree(root, ignore_errors=True)
    return ctx.violations or None
