"""C16 - pathlib methods are faithful views of wcmatch.glob (DESIGN.md section 5, C16)."""
import os
import random

from .. import gen, refmodel as R, tree as T
from ..common import G, flags_of
from wcmatch import pathlib as WP

SPEC = {
    'rule': ('on generated trees, for patterns aimed at the tree (relative and absolute) and sampled subsets of {GLOBSTAR, DOTGLOB, '
             'EXTGLOB, FOLLOW, GLOBSTARLONG, NODIR, NEGATE, SCANDOTDIR, NOUNIQUE, IGNORECASE, NODOTDIR}: the real Path(root).glob(p) '
             'must equal glob.glob(p, root_dir=root) joined onto the root; rglob(p) must equal glob.glob of the pattern behind an '
             'implicit leading recursive segment; PurePath.globmatch / full_match must equal glob.globmatch on the path text (with '
             'a trailing separator for a concrete directory); after chdir into the root, q.match(p, REALPATH) must hold exactly for '
             'the q that Path(\'.\').rglob(p) yields, over every entry of the tree; absolute patterns must raise ValueError; '
             'FORCEWIN/FORCEUNIX supplied by the user must change nothing; REALPATH on a PureWindowsPath must raise ValueError; '
             'PurePosixPath / PureWindowsPath matching must equal glob.globmatch with FORCEUNIX / FORCEWIN; no path twice unless '
             'NOUNIQUE. A case is one (tree, pattern, flag set); it is non-trivial when glob or rglob returned something.'),
    'bounds': {'quick': {'trees_per_shard': 100, 'patterns_per_tree': 16}, 'thorough': {'trees': 'until the time budget', 'patterns_per_tree': 30}},
    'floor': {'quick': 8000, 'thorough': 100000},
    'required_counters': ['glob_view_checks', 'rglob_view_checks', 'globmatch_view_checks', 'match_vs_rglob_checks', 'value_error_checks',
                          'pure_flavour_checks', 'uniqueness_checks'],
    'budget': {'quick': 45, 'thorough': 480},
    'shard_timeout': {'quick': 400, 'thorough': 1500},
    'assumptions': ['the match <-> rglob correspondence is not asserted under SCANDOTDIR nor for patterns with written `.`/`..` '
                    'segments (pathlib normalises `x/.` to `x`)',
                    'rglob is compared with glob of `**/`+pattern only without exclusions (whether exclusions are right-anchored '
                    'too is not stated)', 'under FOLLOW / GLOBSTARLONG only trees without directory cycles are used'],
}

OPT = ['GLOBSTAR', 'DOTGLOB', 'NODIR', 'SCANDOTDIR', 'NOUNIQUE', 'IGNORECASE', 'FOLLOW', 'GLOBSTARLONG', 'NODOTDIR']


def pflags(fn):
    v = 0
    for f in fn:
        v |= getattr(WP, f)
    return v


def norm_abs(root, rel):
    return os.path.normpath(os.path.join(root, T.norm_result(rel)))


def first_assignment_shape(toks, fn, path, implicit):
    """Mechanism predicate of KF-REALPATH-FIRST-ASSIGNMENT: two or more globstars in one regex (the implicit prefix counts)
    and a symlinked directory on the way to the path."""
    ps = R.PathSpec(globstar='GLOBSTAR' in fn or 'GLOBSTARLONG' in fn, globstarlong='GLOBSTARLONG' in fn)
    # adjacent recursive segments are one globstar in the regex, and so is the implicit prefix in front of a pattern that opens with one
    kinds = ([True] if implicit else []) + [R.seg_is_gstar(sg, ps) for sg in R.split_segments(toks)[1]]
    n = sum(1 for i, g in enumerate(kinds) if g and not (i and kinds[i - 1]))
    if n < 2:
        return False
    parts = path.split('/')
    return any(os.path.islink('/'.join(parts[:i])) for i in range(1, len(parts)))


def check_pattern(ctx, tr, rng, k, j, forced=None):
    ents = tr.lexical()
    if forced:
        toks, text, fn, pats, kw = forced
    else:
        toks = gen.tree_pattern(rng, ents, ext=True, globstar=True, maxseg=3)
        if gen.ambiguous_adjacency(toks) or not toks:
            return
        text = gen.ser(toks)
        fn = ['EXTGLOB'] + [f for f in OPT if rng.random() < 0.25]
        if tr.has_dir_cycle():
            fn = [f for f in fn if f not in ('FOLLOW', 'GLOBSTARLONG')]
        kw = {}
        pats = text
        r = rng.random()
        if r < 0.15:
            t2 = gen.ser(gen.tree_pattern(rng, ents, maxseg=2))
            pats = [text, '!' + t2]
            fn.append('NEGATE')
        elif r < 0.3:
            kw = {'exclude': gen.ser(gen.tree_pattern(rng, ents, maxseg=2))}
    root = tr.root
    flags_g = flags_of(fn)
    flags_p = pflags(fn)
    icase = 'IGNORECASE' in fn
    wit = {'tree': tr.spec, 'ast': toks, 'text': text, 'pattern': pats, 'kw': kw, 'flags': fn}
    P = WP.Path(root)

    def fold(x):
        return x.lower() if icase else x

    # ---- glob view -------------------------------------------------------------------------------
    try:
        a = [str(p) for p in P.glob(pats, flags=flags_p, **kw)]
        b = G.glob(pats, flags=flags_g, root_dir=root, **kw)
    except Exception as e:  # noqa: BLE001
        ctx.disagree(f'Path.glob / glob.glob raised {type(e).__name__}', dict(wit, exception=repr(e)[:200]))
        return
    ctx.evals()
    ctx.count('glob_view_checks')
    sa = {fold(os.path.normpath(x)) for x in a}
    sb = {fold(norm_abs(root, x)) for x in b}
    if sa != sb:
        ctx.disagree('Path.glob differs from glob.glob with the path as root', dict(wit, only_pathlib=sorted(sa - sb)[:8], only_glob=sorted(sb - sa)[:8]))
    if 'NOUNIQUE' not in fn:
        ctx.count('uniqueness_checks')
        if len(set(a)) != len(a):
            ctx.disagree('Path.glob yields one path twice', dict(wit, result=a[:20]))
    else:
        # with NOUNIQUE the pathlib view keeps glob's duplicates: same multiset, same order
        ctx.count('nounique_multiset_checks')
        la = [fold(os.path.normpath(x)) for x in a]
        lb = [fold(norm_abs(root, x)) for x in b]
        if sa == sb and la != lb:
            ctx.disagree('NOUNIQUE: Path.glob does not keep the duplicates / order of glob.glob',
                         dict(wit, pathlib=[os.path.relpath(x, root) for x in la[:16]], glob=[os.path.relpath(x, root) for x in lb[:16]]))
    # ---- rglob view ------------------------------------------------------------------------------
    ra = []
    if isinstance(pats, str) and not kw:
        try:
            ra = [str(p) for p in P.rglob(pats, flags=flags_p)]
        except Exception as e:  # noqa: BLE001
            ra = f'raised {type(e).__name__}'
        # the same pattern behind an implicit leading recursive segment
        prefix = '***/' if ('GLOBSTARLONG' in fn and 'FOLLOW' in fn) else '**/'
        comparable = 'GLOBSTAR' in fn or 'GLOBSTARLONG' in fn or '**' not in text
        if isinstance(ra, str):
            ctx.disagree(f'Path.rglob {ra}', wit)
        elif comparable:
            rb = G.glob(prefix + text, flags=flags_g | G.GLOBSTAR, root_dir=root)
            ctx.evals()
            ctx.count('rglob_view_checks')
            sra = {fold(os.path.normpath(x)) for x in ra}
            srb = {fold(norm_abs(root, x)) for x in rb}
            if sra != srb:
                ctx.disagree('Path.rglob differs from glob.glob of the pattern behind a leading recursive segment',
                             dict(wit, only_rglob=sorted(sra - srb)[:8], only_glob=sorted(srb - sra)[:8], equivalent=prefix + text))
            if 'NOUNIQUE' not in fn and len(set(ra)) != len(ra):
                ctx.disagree('Path.rglob yields one path twice', dict(wit, result=ra[:20]))
        # exclude= reaches rglob and glob alike: excluding the literal path of one result removes it (whichever way the
        # exclusion is anchored) and adds nothing
        dotsegs = any(R.literal_text(R.norm_seg(sg)) in ('.', '..') for sg in R.split_segments(toks)[1])
        plain_seps = all(t[1] == '/' for t in toks if t[0] == 'sep')
        if isinstance(ra, list) and ra and 'IGNORECASE' not in fn and not dotsegs and plain_seps and 'SCANDOTDIR' not in fn:
            # (with written `.` / `..` segments the path glob tests is not the path pathlib shows)
            for meth, res in (('rglob', ra), ('glob', a)):
                if not res:
                    continue
                victim = res[(k + j) % len(res)]
                rel = os.path.relpath(victim, root)
                if rel.startswith('..') or rel == '.':
                    continue
                ex = G.escape(rel) + ('/' if os.path.isdir(victim) else '')
                try:
                    kept = [str(p) for p in getattr(P, meth)(pats, flags=flags_p, exclude=ex)]
                except Exception as e:  # noqa: BLE001
                    kept = f'raised {type(e).__name__}'
                ctx.count('pathlib_exclude_checks')
                if isinstance(kept, str) or victim in kept or not set(kept) <= set(res):
                    ctx.disagree(f'Path.{meth}(exclude=<the literal path of one result>) still yields it, or yields something new',
                                 dict(wit, excluded=ex, victim=rel, kept=kept if isinstance(kept, str) else [os.path.relpath(x, root) for x in kept[:12]]))
    # ---- PurePath.globmatch / full_match == glob.globmatch on the path text --------------------------
    cands = tr.candidates(3)[:30] + ['zz', 'a/zz']
    strip = ~(WP.SCANDOTDIR | WP.NOUNIQUE)
    mflags = flags_g & ~(G.SCANDOTDIR | G.NOUNIQUE)
    for c in cands[:: max(1, len(cands) // 12)]:
        for cls, force in ((WP.PurePosixPath, G.FORCEUNIX), (WP.PureWindowsPath, G.FORCEWIN)):
            q = cls(c)
            try:
                x = q.globmatch(pats, flags=flags_p & strip, **kw)
                y = q.full_match(pats, flags=flags_p & strip, **kw)
                z = G.globmatch(str(q), pats, flags=mflags | force, **kw)
                # user supplied FORCEWIN/FORCEUNIX are ignored
                u = q.globmatch(pats, flags=(flags_p & strip) | G.FORCEWIN | G.FORCEUNIX, **kw)
                u2 = q.globmatch(pats, flags=(flags_p & strip) | (G.FORCEWIN if cls is WP.PurePosixPath else G.FORCEUNIX), **kw)
            except Exception as e:  # noqa: BLE001
                ctx.disagree(f'PurePath.globmatch raised {type(e).__name__}', dict(wit, path=c, cls=cls.__name__))
                continue
            ctx.evals()
            ctx.count('globmatch_view_checks')
            ctx.count('pure_flavour_checks')
            if not (x == y == z == u == u2):
                ctx.disagree('PurePath.globmatch / full_match differ from glob.globmatch on the path text (or user FORCE* flags change the result)',
                             dict(wit, path=str(q), cls=cls.__name__, globmatch=x, full_match=y, glob_globmatch=z, with_force_flags=[u, u2]))
        # concrete Path: trailing separator for a directory
        if isinstance(pats, str):
            q = WP.Path(os.path.join(root, c))
            apat = G.escape(root) + '/' + text.lstrip('/')
            isd = os.path.isdir(os.path.join(root, c))
            for extra_p, extra_g in ((0, 0), (WP.NODIR, G.NODIR)):
                try:
                    x = q.globmatch(apat, flags=(flags_p & strip) | extra_p)
                    y = q.full_match(apat, flags=(flags_p & strip) | extra_p)
                    s = os.path.join(root, c) + ('/' if isd else '')
                    z = G.globmatch(s, apat, flags=mflags | G.FORCEUNIX | extra_g)
                    # the same with a relative concrete path below the working directory
                    cwd = os.getcwd()
                    os.chdir(root)
                    try:
                        xr = WP.Path(c).globmatch(text, flags=(flags_p & strip) | extra_p)
                        yr = WP.Path(c).full_match(text, flags=(flags_p & strip) | extra_p)
                    finally:
                        os.chdir(cwd)
                    zr = G.globmatch(os.path.normpath(c) + ('/' if isd else ''), text, flags=mflags | G.FORCEUNIX | extra_g)
                except Exception as e:  # noqa: BLE001
                    ctx.disagree(f'Path.globmatch raised {type(e).__name__}', dict(wit, path=c))
                    continue
                ctx.count('globmatch_view_checks', 2)
                ctx.evals(2)
                if not (x is z and y is z):
                    ctx.disagree('Path.globmatch / full_match differ from glob.globmatch on the path text with a trailing separator for directories',
                                 dict(wit, path=c, globmatch=x, full_match=y, glob=z, nodir=bool(extra_p), is_dir=isd))
                elif not (xr is zr and yr is zr) and not any(seg in ('.', '..') for seg in c.split('/')):
                    ctx.disagree('relative Path.globmatch / full_match differ from glob.globmatch on the path text with a trailing separator for directories',
                                 dict(wit, path=c, globmatch=xr, full_match=yr, glob=zr, nodir=bool(extra_p), is_dir=isd))
    # ---- match(p, REALPATH) <=> rglob ----------------------------------------------------------------
    segs = R.split_segments(toks)
    dotseg = any(R.literal_text(R.norm_seg(sg)) in ('.', '..') for sg in segs[1])
    # a nullable segment pattern against no segment is a DON'T-CARE zone of pure matching (DESIGN.md 4.2)
    nullable_seg = any(R.nullable(R.norm_seg(sg)) for sg in segs[1] if not R.seg_is_gstar(sg, R.PathSpec(globstar=True, globstarlong=True)))
    if isinstance(pats, str) and not kw and 'SCANDOTDIR' not in fn and not text.startswith('/') and not dotseg and not nullable_seg:
        cwd = os.getcwd()
        try:
            os.chdir(root)
            rset = {os.path.normpath(str(p)) for p in WP.Path('.').rglob(pats, flags=flags_p)}
            rlow = {x.lower() for x in rset}
            for c in (tr.candidates(6)[:250] if forced else tr.candidates(3)[:40]):
                q = WP.Path(c)
                try:
                    m = q.match(pats, flags=(flags_p & ~WP.NOUNIQUE) | WP.REALPATH)
                except Exception as e:  # noqa: BLE001
                    m = f'raised {type(e).__name__}'
                ctx.evals()
                ctx.count('match_vs_rglob_checks')
                inr = os.path.normpath(c) in rset
                if icase and not inr and os.path.normpath(c).lower() in rlow:
                    continue    # a case twin was yielded instead (the duplicate filter merges twins): not asserted
                if m is not inr:
                    fid = None
                    if m is True and not inr and segs[2] and segs[1] and not os.path.isdir(c) and \
                            R.seg_is_gstar(segs[1][-1], R.PathSpec(globstar='GLOBSTAR' in fn, globstarlong='GLOBSTARLONG' in fn)):
                        # `**/` under REALPATH also accepts a non-directory (the divider matches the end of the text)
                        fid = 'KF-REALPATH-GLOBSTAR-SLASH-FILE'
                    if fid is None and m is False and inr and first_assignment_shape(toks, fn, c, implicit=True):
                        fid = 'KF-REALPATH-FIRST-ASSIGNMENT'
                    ctx.disagree('q.match(p, REALPATH) disagrees with membership in Path(\'.\').rglob(p)',
                                 dict(wit, q=c, match=m, in_rglob=inr), fid)
                    break
            # the same correspondence with an exclusion given to both sides (a base name: the anchoring of exclusions must agree)
            if rset and not icase and isinstance(pats, str) and not kw:
                victim = sorted(rset)[(k + j) % len(rset)]
                ex = G.escape(os.path.basename(victim))
                if ex and ex not in ('.', '..'):
                    try:
                        rset_e = {os.path.normpath(str(p)) for p in WP.Path('.').rglob(pats, flags=flags_p, exclude=ex)}
                    except Exception as e:  # noqa: BLE001
                        rset_e = f'raised {type(e).__name__}'
                    for c in sorted(rset)[:30]:
                        try:
                            m = WP.Path(c).match(pats, flags=(flags_p & ~WP.NOUNIQUE) | WP.REALPATH, exclude=ex)
                        except Exception as e:  # noqa: BLE001
                            m = f'raised {type(e).__name__}'
                        ctx.count('match_vs_rglob_checks')
                        inr = isinstance(rset_e, set) and os.path.normpath(c) in rset_e
                        if m is not inr and not (m is False and inr and first_assignment_shape(toks, fn, c, implicit=True)):
                            ctx.disagree('with exclude=, q.match(p, REALPATH) disagrees with membership in Path(\'.\').rglob(p)',
                                         dict(wit, q=c, exclude=ex, match=m, in_rglob=inr if isinstance(rset_e, set) else rset_e))
                            break
                    # ... and with the same exclusion written inline under NEGATE (match's own defaults must not switch it off)
                    npats = [pats, '!' + ex]
                    try:
                        rset_n = {os.path.normpath(str(p)) for p in WP.Path('.').rglob(npats, flags=flags_p | WP.NEGATE)}
                    except Exception as e:  # noqa: BLE001
                        rset_n = f'raised {type(e).__name__}'
                    for c in sorted(rset)[:30]:
                        try:
                            m = WP.Path(c).match(npats, flags=(flags_p & ~WP.NOUNIQUE) | WP.REALPATH | WP.NEGATE)
                            mp = WP.PurePath(c).match(npats, flags=(flags_p & ~WP.NOUNIQUE) | WP.NEGATE)
                        except Exception as e:  # noqa: BLE001
                            m = mp = f'raised {type(e).__name__}'
                        ctx.count('match_vs_rglob_checks')
                        inr = isinstance(rset_n, set) and os.path.normpath(c) in rset_n
                        if m is not inr and not (m is False and inr and first_assignment_shape(toks, fn, c, implicit=True)):
                            ctx.disagree('with an inline exclusion (NEGATE), q.match(p, REALPATH) disagrees with membership in Path(\'.\').rglob(p)',
                                         dict(wit, q=c, patterns=npats, match=m, in_rglob=inr if isinstance(rset_n, set) else rset_n))
                            break
                        if os.path.basename(c) == os.path.basename(victim) and mp is not False:
                            ctx.disagree('PurePath.match accepts a path whose base name an inline exclusion (NEGATE) names',
                                         dict(wit, q=c, patterns=npats, match=mp))
                            break
        finally:
            os.chdir(cwd)
    # ---- ValueError cases ----------------------------------------------------------------------------
    ctx.count('value_error_checks', 3)
    for what, fn_ in (('Path.glob(absolute)', lambda: list(P.glob('/' + text.lstrip('/'), flags=flags_p))),
                      ('Path.rglob(absolute)', lambda: list(P.rglob('/' + text.lstrip('/'), flags=flags_p))),
                      ('PureWindowsPath + REALPATH', lambda: WP.PureWindowsPath('a').globmatch(text, flags=(flags_p & strip) | WP.REALPATH))):
        try:
            fn_()
            got = 'returned'
        except ValueError:
            got = 'ValueError'
        except Exception as e:  # noqa: BLE001
            got = type(e).__name__
        ctx.evals()
        if got != 'ValueError':
            ctx.disagree(f'{what} does not raise ValueError', dict(wit, observed=got))
    if a or (not isinstance(ra, str) and ra):
        ctx.mark_nontrivial((ctx.shard, k, j))
    if j == 0 and k % 8 == 0:
        ctx.sample({'tree': tr.spec, 'pattern': pats, 'kw': kw, 'flags': fn, 'path_glob': [os.path.relpath(x, root) for x in a[:6]]})


def fixed_scenarios(ctx):
    """Recursive patterns (also ones that themselves begin with `**` / `***`) under every FOLLOW / GLOBSTARLONG combination on
    the hand-built cycle-free trees with symlinked directories of C06: glob / rglob / match views (deterministic part)."""
    from .c06 import FIXED_TREES
    GS, GL_ = (('gstar',),), (('gstarlong',),)
    lit = lambda x: tuple(('lit', c) for c in x)  # noqa: E731
    shapes = [[GS], [GL_], [GS, lit('z')], [GS, lit('m'), (('star',),)], [GL_, lit('z')], [lit('m'), GS], [(('star',),), GS, lit('z')],
              [lit('z')], [lit('m'), (('star',),)], [GS, lit('m')], [GS, GS, lit('z')], [GL_, lit('m'), GS], [(('q',),)], [GS, lit('lnk'), (('star',),)],
              # a written first segment, then a recursive one: behind match's / rglob's implicit prefix that is a second capture
              [lit('x'), GS, lit('z')], [lit('m'), GS, lit('z')], [lit('A'), GS, lit('z')], [lit('y'), GS], [lit('m'), GS], [lit('x'), GS, lit('m'), (('star',),)],
              [(('star',),), GS, lit('z')], [lit('t'), GS, lit('z')], [lit('a'), GS, lit('z')]]
    fsets = [('GLOBSTARLONG', 'FOLLOW'), ('GLOBSTARLONG',), ('GLOBSTAR', 'FOLLOW'), ('GLOBSTAR',), ('GLOBSTARLONG', 'FOLLOW', 'DOTGLOB'),
             ('GLOBSTAR', 'GLOBSTARLONG', 'FOLLOW'), ('GLOBSTARLONG', 'FOLLOW', 'NODIR'), ('GLOBSTAR', 'NOUNIQUE')]
    idx = 0
    for ti, spec in enumerate(FIXED_TREES):
        todo = []
        for segs in shapes:
            for fn in fsets:
                idx += 1
                if ctx.mine(idx):
                    todo.append((segs, fn))
        if not todo:
            continue
        with T.Tree(spec, 'c16f-') as tr:
            for segs, fn in todo:
                toks = gen.join_segments(segs, None, lead=False, trail=False)
                text = gen.ser(toks)
                with ctx.case(timeout=20, label=('fixed', ti, text, fn)):
                    check_pattern(ctx, tr, ctx.rng_for('fx', ti, text, fn), 0, 0, forced=(toks, text, ['EXTGLOB'] + list(fn), text, {}))
                    ctx.count('fixed_scenario_cases')
                    # rglob against the independent reference walk of the pattern behind its implicit recursive segment (which is a
                    # `***` exactly under GLOBSTARLONG|FOLLOW): the symlink rule of every written `**` / `***` is kept
                    if 'NOUNIQUE' not in fn and 'NODIR' not in fn:
                        from .c06 import make_walker
                        wfn = list(fn) + ['GLOBSTAR']
                        pre = GL_ if ('GLOBSTARLONG' in fn and 'FOLLOW' in fn) else GS
                        full = gen.join_segments([pre], None, lead=False, trail=False) + (('sep', '/'),) + tuple(toks)
                        try:
                            exp = make_walker(tr.root, wfn, strict=True).glob(full)
                            got = {os.path.normpath(str(p_.relative_to(tr.root))) for p_ in WP.Path(tr.root).rglob(text, flags=pflags(['EXTGLOB'] + list(fn)))}
                        except RecursionError:
                            continue
                        must = {os.path.normpath(T.norm_result(p_)) for p_, v in exp.items() if v is True} - {'.'}
                        may = {os.path.normpath(T.norm_result(p_)) for p_ in exp} | {'.'}
                        ctx.evals()
                        ctx.count('rglob_vs_reference_walk')
                        if must - got or got - may:
                            ctx.disagree('Path.rglob differs from the reference walk of the pattern behind its implicit recursive segment',
                                         {'tree': tr.spec, 'pattern': text, 'flags': ['EXTGLOB'] + list(fn), 'missing': sorted(must - got)[:8], 'extra': sorted(got - may)[:8]})


# pathlib normalises `x/.` to `x` and `./x` to `x`: under SCANDOTDIR one pattern can reach one file by two spellings
DOT_TREE = [('.h', 'd', None), ('.h/.g', 'd', None), ('.h/.g/f', 'f', None), ('.h/v', 'f', None), ('d', 'd', None), ('d/.k', 'd', None),
            ('d/.k/x', 'f', None), ('d/w', 'f', None), ('.f', 'f', None), ('t', 'f', None),
            # a backslash is an ordinary character of a POSIX name: `b\\` and `b\\.` are two files, `c\\.` is a directory
            ('b\\', 'f', None), ('b\\.', 'f', None), ('c\\.', 'd', None), ('c\\./y', 'f', None), ('c\\', 'd', None), ('c\\/y', 'f', None), ('e\n', 'f', None), ('e', 'f', None)]


def dot_segment_scenarios(ctx):
    lit = lambda x: tuple(('lit', c) for c in x)  # noqa: E731
    ST, DS, Q = (('star',),), lit('.') + (('star',),), (('q',),)
    DQ = lit('.') + (('q',),)
    shapes = [[DS, DS], [DS, DS, DS], [ST, DS, DS], [DS], [DS, ST], [ST, DS], [DS, lit('.')], [lit('.'), DS], [DS, lit('..')], [DQ, DS],
              [DS, DQ], [ST, ST], [DS, ST, DS], [lit('d'), DS, DS], [lit('.h'), DS], [DS, lit('.g')], [DS, DS, ST], [Q, DS], [(('gstar',),), DS],
              [lit('b') + ST], [lit('c') + ST, ST], [lit('c') + ST], [Q + Q], [Q + Q + Q], [(('gstar',),), lit('y')], [lit('e') + ST], [lit('e')]]
    fsets = [('SCANDOTDIR',), ('SCANDOTDIR', 'DOTGLOB'), ('SCANDOTDIR', 'NOUNIQUE'), ('SCANDOTDIR', 'GLOBSTAR'), ('SCANDOTDIR', 'NODOTDIR'),
             (), ('DOTGLOB',), ('SCANDOTDIR', 'NODIR'), ('SCANDOTDIR', 'DOTGLOB', 'GLOBSTAR', 'NOUNIQUE')]
    idx, todo = 0, []
    for segs in shapes:
        for fn in fsets:
            for trail in (False, True):
                idx += 1
                if ctx.mine(idx):
                    todo.append((segs, fn, trail))
    if not todo:
        return
    with T.Tree(DOT_TREE, 'c16d-') as tr:
        for segs, fn, trail in todo:
            toks = gen.join_segments(segs, None, lead=False, trail=trail)
            text = gen.ser(toks)
            with ctx.case(timeout=20, label=('dotseg', text, fn)):
                check_pattern(ctx, tr, ctx.rng_for('ds', text, fn), 0, 0, forced=(toks, text, ['EXTGLOB'] + list(fn), text, {}))
                ctx.count('dot_segment_scenarios')


def degenerate_patterns(ctx):
    """An empty pattern (alone, in a list, as an empty SPLIT piece, as `exclude=`) denotes nothing in every view: match / globmatch /
    full_match say no, glob / rglob yield nothing, and an empty exclusion removes nothing."""
    if ctx.shard != 3 % max(ctx.nshards, 1):
        ctx.count('degenerate_pattern_checks', 0)
        return
    with T.Tree([('a', 'd', None), ('a/b', 'f', None), ('c', 'f', None), ('.h', 'f', None)], 'c16e-') as tr:
        cwd = os.getcwd()
        os.chdir(tr.root)
        try:
            for fl in (0, WP.GLOBSTAR, WP.GLOBSTAR | WP.DOTGLOB, WP.NEGATE, WP.SPLIT, WP.GLOBSTARLONG | WP.FOLLOW, WP.REALPATH, WP.NEGATE | WP.NEGATEALL, WP.MATCHBASE):
                for q in ('a/b', 'c', 'a', 'x/y/z'):
                    for cls in (WP.PurePosixPath, WP.PureWindowsPath, WP.Path):
                        if cls is not WP.Path and fl & WP.REALPATH:
                            continue
                        P_ = cls(q)
                        for what, call_, want in (
                                ("match('')", lambda: P_.match('', flags=fl), False), ("match([''])", lambda: P_.match([''], flags=fl), False),
                                ("globmatch('')", lambda: P_.globmatch('', flags=fl), False), ("full_match(('', ''))", lambda: P_.full_match(('', ''), flags=fl), False),
                                ("match([])", lambda: P_.match([], flags=fl), False), ("match('zzz|', SPLIT)", lambda: P_.match('zzz|', flags=fl | WP.SPLIT), False),
                                ("match('*', exclude='')", lambda: P_.match('*', flags=fl, exclude=''), P_.match('*', flags=fl)),
                                ("match('*', exclude=[])", lambda: P_.match('*', flags=fl, exclude=[]), P_.match('*', flags=fl & ~(WP.NEGATE | WP.NEGATEALL))),
                                ("globmatch('**', exclude=[''])", lambda: P_.globmatch('**', flags=fl | WP.GLOBSTAR, exclude=['']),
                                 P_.globmatch('**', flags=(fl | WP.GLOBSTAR) & ~(WP.NEGATE | WP.NEGATEALL)))):
                            try:
                                got = call_()
                            except Exception as e:  # noqa: BLE001
                                got = f'raised {type(e).__name__}'
                            ctx.evals()
                            ctx.count('degenerate_pattern_checks')
                            if got is not want:
                                ctx.disagree('an empty pattern / exclusion is not without effect in a pathlib view',
                                             {'tree': tr.spec, 'path': q, 'class': cls.__name__, 'flags': fl, 'call': what, 'expected': want, 'observed': got})
                for what, call_ in (("glob('')", lambda: list(WP.Path('.').glob('', flags=fl))), ("rglob('')", lambda: list(WP.Path('.').rglob('', flags=fl))),
                                    ("glob([''])", lambda: list(WP.Path('.').glob([''], flags=fl))), ("rglob([])", lambda: list(WP.Path('.').rglob([], flags=fl)))):
                    try:
                        got = [str(x) for x in call_()]
                    except Exception as e:  # noqa: BLE001
                        got = f'raised {type(e).__name__}'
                    ctx.count('degenerate_pattern_checks')
                    if got != []:
                        ctx.disagree('an empty pattern yields something in a pathlib view', {'tree': tr.spec, 'flags': fl, 'call': what, 'observed': got})
        finally:
            os.chdir(cwd)
        ctx.mark_nontrivial(('degenerate-patterns',))


def run(ctx):
    quick = ctx.quick
    degenerate_patterns(ctx)
    fixed_scenarios(ctx)
    dot_segment_scenarios(ctx)
    k = 0
    limit = 100 if quick else 10 ** 9
    while k < limit and not ctx.out_of_time():
        k += 1
        rng = ctx.rng_for('t', ctx.shard, k)
        spec = T.gen_spec(rng, max_entries=12)
        with T.Tree(spec, 'c16-') as tr:
            for j in range(16 if quick else 30):
                with ctx.case(timeout=20, label=('tree', ctx.shard, k, j)):
                    check_pattern(ctx, tr, rng, k, j)
    ctx.count('trees', k)
    for c in ('match_vs_rglob_checks', 'rglob_view_checks'):
        ctx.count(c, 0)


def replay(ctx, w):
    spec = [tuple(x) for x in w['tree']]
    pats = w['pattern'] if isinstance(w['pattern'], str) else list(w['pattern'])
    kw = dict(w.get('kw') or {})
    with T.Tree(spec, 'c16r-') as tr:
        check_pattern(ctx, tr, random.Random(0), 0, 1, forced=(w['ast'], w['text'], list(w['flags']), pats, kw))
    return ctx.violations or None
