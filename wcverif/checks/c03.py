"""C03 - hidden names and the special directories are never matched by wildcards (DESIGN.md section 5, C03)."""
import itertools
import os
import re
import shutil

from .. import env, gen, refmodel as R, findings
from ..common import F, G, flags_of, shape, pathlib_mask
from wcmatch import pathlib as WP, wcmatch as WM
from .c02 import pathspec

PATHLIB_MASK = pathlib_mask()

SPEC = {
    'rule': ('the C01 and C02 pattern generators are run against name/path universes biased to hidden and special segments '
             '(`.`, `..`, `.a`, `..a`, `.a.`, `a/.b/c` ...) through fnmatch / globmatch / PurePath.match under {DOTGLOB, '
             'NODOTDIR, GLOBSTAR, MATCHBASE, EXTGLOB}; the reference model decides MUST (a written `.` consumes the dot with no '
             'wildcard standing there), MUST NOT (no derivation lets a written dot consume it: a leak) or DON\'T CARE; exclusion '
             'patterns (exclude= / NEGATE) must behave as if DOTGLOB were set; real trees with dot entries are globbed and walked '
             '(glob / WcMatch) and no result may carry a hidden segment at a wildcard position. For patterns without any written '
             '`.` the hidden language must be empty over the whole universe. A case is one (pattern, flag set, api); it is '
             'non-trivial when its universe held at least one hidden name with a decided verdict.'),
    'bounds': {'quick': {'enumerated': 'length 1 exhaustive, length 2 sampled 4%', 'random_asts_per_shard': 80},
               'thorough': {'enumerated': 'length 1-2 exhaustive', 'random_asts': 'until the time budget'}},
    'floor': {'quick': 150000, 'thorough': 1500000},
    'required_counters': ['hidden_must_not', 'hidden_must', 'emptiness_patterns', 'emptiness_hidden_names', 'exclusion_checks',
                          'pathlib_match_checks', 'special_dir_checks', 'real_tree_results_checked'],
    'budget': {'quick': 50, 'thorough': 540},
    'shard_timeout': {'quick': 400, 'thorough': 1500},
    'assumptions': ['the three-valued reading of C03 in DESIGN.md 4.1: strict derivation => MUST, no lenient derivation => MUST NOT'],
}

FN_FLAGSETS = [('EXTMATCH',), ('EXTMATCH', 'IGNORECASE'), ()]
GL_FLAGSETS = [
    (), ('GLOBSTAR',), ('DOTGLOB',), ('NODOTDIR',), ('DOTGLOB', 'NODOTDIR'), ('MATCHBASE',), ('MATCHBASE', 'GLOBSTAR'),
    ('GLOBSTAR', 'DOTGLOB'), ('GLOBSTAR', 'NODOTDIR'), ('MATCHBASE', 'DOTGLOB', 'GLOBSTAR'), ('GLOBSTARLONG',),
    ('MATCHBASE', 'NODOTDIR'),
]
HIDDEN_SEGS = ['.', '..', '.a', '..a', '.a.', '.b', '.ab', '...']


def hidden_names(toks, rng, maxlen=3):
    names, alpha = gen.name_universe(toks, rng, maxlen=maxlen, sigma_cap=4, derivations=5)
    out = []
    seen = set()
    for n in names:
        for x in ((n,) if n.startswith('.') else ('.' + n,)):
            if x not in seen:
                seen.add(x)
                out.append(x)
    for x in HIDDEN_SEGS:
        if x not in seen:
            seen.add(x)
            out.append(x)
    return out


def fn_check(ctx, toks, fnames, idx):
    pat = gen.ser(toks)
    flags = flags_of(fnames)
    icase = 'IGNORECASE' in fnames
    names = hidden_names(toks, ctx.rng_for('hn', idx))
    try:
        m = F.compile(pat, flags=flags)
    except Exception as e:  # noqa: BLE001
        ctx.disagree(f'compile raised {type(e).__name__}', {'api': 'fnmatch.compile', 'ast': toks, 'pattern': pat, 'flags': list(fnames)})
        return
    nodot = not gen.has_dot_literal(toks)
    decided = 0
    for name in names:
        exp = R.seg_match3(toks, name, False, icase)
        got = m.match(name)
        ctx.evals()
        if nodot:
            ctx.count('emptiness_hidden_names')
        if exp is None:
            ctx.count('dont_care')
            continue
        decided += 1
        ctx.count('hidden_must' if exp else 'hidden_must_not')
        if got is not exp:
            fid = findings.classify_segment(toks, name, False, icase, got, fn_mode=True)
            ctx.disagree(f'fnmatch hidden name: expected {exp} got {got}|{shape(toks)}',
                         {'api': 'fnmatch', 'ast': toks, 'pattern': pat, 'flags': list(fnames), 'name': name,
                          'expected': exp, 'observed': got}, fid)
    if nodot:
        ctx.count('emptiness_patterns')
    if decided:
        ctx.mark_nontrivial(('fn', pat, flags))


def hidden_paths(toks, rng):
    paths = gen.path_universe(toks, rng, nseg_names=6, extra_names=rng.sample(HIDDEN_SEGS, 3), allow_hidden=True, cap=300)
    out = [p for p in paths if any(s.startswith('.') for s in p.split('/'))]
    for h in HIDDEN_SEGS[:5]:
        out += [h, 'a/' + h, h + '/a', 'a/' + h + '/b']
    return list(dict.fromkeys(out))


def gl_check(ctx, toks, fnames, idx, pathlib_too=False):
    pat = gen.ser(toks)
    fn = tuple(fnames) + ('EXTGLOB',)
    flags = flags_of(fn)
    ps = pathspec(fn)
    paths = hidden_paths(toks, ctx.rng_for('hp', idx))
    try:
        m = G.compile(pat, flags=flags)
    except Exception as e:  # noqa: BLE001
        ctx.disagree(f'compile raised {type(e).__name__}', {'api': 'glob.compile', 'ast': toks, 'pattern': pat, 'flags': list(fn)})
        return
    decided = 0
    for path in paths:
        exp = R.path_match3(toks, path, ps)
        got = m.match(path)
        ctx.evals()
        special = any(s in ('.', '..') for s in path.split('/'))
        if exp is None:
            ctx.count('dont_care')
        else:
            decided += 1
            ctx.count('hidden_must' if exp else 'hidden_must_not')
            if special:
                ctx.count('special_dir_checks')
            if got is not exp:
                fid = findings.classify_path(toks, path, ps, got)
                ctx.disagree(f'globmatch hidden/special segment: expected {exp} got {got}|{shape(toks)}|{"+".join(fn)}',
                             {'api': 'globmatch', 'ast': toks, 'pattern': pat, 'flags': list(fn), 'path': path,
                              'expected': exp, 'observed': got}, fid)
        if pathlib_too and not R.split_segments(toks)[0] and 'MATCHBASE' not in fn:
            # PurePath.match: right-anchored form (implicit leading recursive segment); pathlib normalises the path text
            pp = WP.PurePosixPath(path)
            eff = str(pp)
            pflags = flags & PATHLIB_MASK
            ps2 = pathspec(fn)
            ps2.extmatchbase = True
            exp2 = R.path_match3(toks, eff, ps2)
            try:
                got2 = pp.match(pat, flags=pflags)
            except Exception as e:  # noqa: BLE001
                got2 = f'raised {type(e).__name__}'
            ctx.evals()
            ctx.count('pathlib_match_checks')
            if exp2 is not None and got2 is not exp2:
                fid = findings.classify_path(toks, eff, ps2, got2) if isinstance(got2, bool) else None
                ctx.disagree(f'PurePath.match hidden/special segment: expected {exp2} got {got2}|{shape(toks)}|{"+".join(fn)}',
                             {'api': 'PurePath.match', 'ast': toks, 'pattern': pat, 'flags': list(fn), 'path': eff,
                              'expected': exp2, 'observed': got2}, fid)
    if decided:
        ctx.mark_nontrivial(('gl', pat, flags))


def exclusion_check(ctx, ptoks, etoks, idx, glob_mode):
    """Exclusion patterns behave as if DOTGLOB/DOTMATCH were set."""
    pat, epat = gen.ser(ptoks), gen.ser(etoks)
    if epat.startswith('(') or not epat:
        return
    rng = ctx.rng_for('ex', idx)
    if glob_mode:
        names = hidden_paths(ptoks + etoks, rng)[:80] + gen.path_universe(etoks, rng, cap=60)[:40]
        ps, psd = pathspec(('GLOBSTAR',)), pathspec(('GLOBSTAR', 'DOTGLOB'))
        mod, base = G, G.EXTGLOB | G.GLOBSTAR
        ref = lambda t, n, d: R.path_match3(t, n, psd if d else ps)  # noqa: E731
    else:
        names = hidden_names(ptoks + etoks, rng) + gen.name_universe(etoks, rng, maxlen=2)[0][:40]
        mod, base = F, F.EXTMATCH
        ref = lambda t, n, d: R.seg_match3(t, n, d)  # noqa: E731
    try:
        m1 = mod.compile(pat, flags=base, exclude=epat)
        m2 = mod.compile([pat, '!' + epat], flags=base | mod.NEGATE)
        m3 = mod.compile([pat, '-' + epat], flags=base | mod.NEGATE | mod.MINUSNEGATE)
        # the forced dot-matching belongs to the exclusion alone, wherever it stands in the list
        m4 = mod.compile(['!' + epat, pat], flags=base | mod.NEGATE)
        m5 = mod.compile(('!' + epat, pat, pat), flags=base | mod.NEGATE)
        m6 = mod.compile('!' + epat + '|' + pat, flags=base | mod.NEGATE | mod.SPLIT) if '|' not in pat + epat else m4
        m7 = mod.compile('{!' + epat + ',' + pat + '}', flags=base | mod.NEGATE | mod.BRACE) if not (set('{},') & set(pat + epat)) else m4
    except Exception as e:  # noqa: BLE001
        ctx.disagree(f'compile with exclusion raised {type(e).__name__}', {'pattern': pat, 'exclude': epat, 'glob_mode': glob_mode})
        return
    # exclusions alone under NEGATEALL: the implicit match-everything inclusion is an ordinary `*` / `**` (no forced dot-matching)
    implicit = (('gstar',),) if glob_mode else (('star',),)
    try:
        na = [('NEGATEALL !', mod.compile('!' + epat, flags=base | mod.NEGATE | mod.NEGATEALL)),
              ('NEGATEALL - (list)', mod.compile(['-' + epat, '-' + epat], flags=base | mod.NEGATE | mod.NEGATEALL | mod.MINUSNEGATE))]
        ti, te = mod.translate('!' + epat, flags=base | mod.NEGATE | mod.NEGATEALL)
        ti, te = [re.compile(x) for x in ti], [re.compile(x) for x in te]
    except Exception as e:  # noqa: BLE001
        ctx.disagree(f'compile with NEGATEALL raised {type(e).__name__}', {'exclude': epat, 'glob_mode': glob_mode})
        return
    for n in names:
        inc = ref(implicit, n, False)
        exc = ref(etoks, n, True)
        if exc is None or inc is None:
            continue
        exp = inc and not exc
        ctx.evals()
        ctx.count('negateall_checks')
        for api, m in na + [('translate NEGATEALL !', None)]:
            got = m.match(n) if m else (any(r.fullmatch(n) for r in ti) and not any(r.fullmatch(n) for r in te))
            if got is not exp:
                ctx.disagree(f'exclusions alone ({api}): the implicit inclusion of NEGATEALL is not an ordinary match-everything pattern: expected {exp} got {got}',
                             {'api': api, 'exclude': epat, 'glob_mode': glob_mode, 'name': n, 'implicit_inclusion_alone': inc,
                              'exclusion_with_dot': exc, 'expected': exp, 'observed': got, 'east': etoks})
                break
    for n in names:
        inc = ref(ptoks, n, False)
        exc = ref(etoks, n, True)
        if exc is True or inc is False:
            exp = False
        elif exc is False and inc is True:
            exp = True
        else:
            continue
        ctx.evals()
        ctx.count('exclusion_checks')
        class ViaTranslate:
            def __init__(self, pats, flags, **kw):
                inc, exc = mod.translate(pats, flags=flags, **kw)
                self.inc, self.exc = [re.compile(x) for x in inc], [re.compile(x) for x in exc]

            def match(self, n_):
                return any(r.fullmatch(n_) for r in self.inc) and not any(r.fullmatch(n_) for r in self.exc)

        try:
            t1 = ViaTranslate(pat, base, exclude=epat)
            t2 = ViaTranslate([pat, '!' + epat], base | mod.NEGATE)
            t3 = ViaTranslate(['-' + epat, pat], base | mod.NEGATE | mod.MINUSNEGATE)
        except Exception as e:  # noqa: BLE001
            ctx.disagree(f'translate with exclusion raised {type(e).__name__}', {'pattern': pat, 'exclude': epat, 'glob_mode': glob_mode})
            return
        for api, m in (('exclude=', m1), ('NEGATE !', m2), ('MINUSNEGATE -', m3), ('NEGATE ! (exclusion first)', m4),
                       ('translate exclude=', t1), ('translate NEGATE !', t2), ('translate MINUSNEGATE - (exclusion first)', t3),
                       ('NEGATE ! (exclusion first, tuple)', m5), ('NEGATE ! (exclusion first, SPLIT)', m6), ('NEGATE ! (exclusion first, BRACE)', m7)):
            got = m.match(n)
            if got is not exp:
                fid = None
                if glob_mode:
                    fid = findings.classify_path(ptoks, n, ps, True) if (inc is False and got) else None
                else:
                    fid = findings.classify_segment(ptoks, n, False, False, True) if (inc is False and got) else None
                ctx.disagree(f'exclusion ({api}) not evaluated with dot-matching forced / decomposition: expected {exp} got {got}',
                             {'api': api, 'pattern': pat, 'exclude': epat, 'glob_mode': glob_mode, 'name': n,
                              'inclusion_alone': inc, 'exclusion_with_dot': exc, 'expected': exp, 'observed': got,
                              'ast': ptoks, 'east': etoks}, fid)
                break
    ctx.mark_nontrivial(('ex', pat, epat, glob_mode))


def unclosed_group_check(ctx):
    """An extended-group opener that is never closed degrades to its plain meaning (`?`, `*` wildcards; `+ @ !` literals) followed by
    a literal `(`: the wildcard stands at a name / segment start and must refuse the leading dot like any other."""
    L_ = lambda x: tuple(('lit', c) for c in x)  # noqa: E731
    SEP = (('sep', '/'),)
    cases = [
        ('?(a', (('q',),) + L_('(a')), ('*(a*', (('star',),) + L_('(a') + (('star',),)), ('?(a|b', (('q',),) + L_('(a|b')),
        ('*(a|*', (('star',),) + L_('(a|') + (('star',),)), ('+(a', L_('+(a')), ('@(a*', L_('@(a') + (('star',),)), ('!(a', L_('!(a')),
        ('?(a?', (('q',),) + L_('(a') + (('q',),)), ('*(', (('star',),) + L_('(')), ('?(?', (('q',),) + L_('(') + (('q',),)),
        ('d/*(a|b', L_('d') + SEP + (('star',),) + L_('(a|b')), ('d/?(a', L_('d') + SEP + (('q',),) + L_('(a')),
        ('**/?(a', (('gstar',),) + SEP + (('q',),) + L_('(a')), ('*(a/b', (('star',),) + L_('(a') + SEP + L_('b')),
        ('?(a/*', (('q',),) + L_('(a') + SEP + (('star',),)), ('x?(a', L_('x') + (('q',),) + L_('(a')),
    ]
    names = ['.(a', 'x(a', '.(ab', '(a', '.(a|b', 'x(a|b', '.(a|', '.(a|x', '+(a', '.+(a', '@(a', '@(ab', '!(a', '.(', 'x(', '.(x', 'y(x', '.(ax', 'z(ax',
             'd/.(a|b', 'd/x(a|b', 'd/.(a', 'd/y(a', '.(a/b', 'x(a/b', '.(a/.b', 'q(a/.b', 'x/.(a', 'x/y(a', 'a/b/.(a', 'xy(a', 'x.(a', '.x(a']
    n = 0
    for ci, (text, ast) in enumerate(cases):
        if not ctx.mine(ci):
            continue
        for mode in ('fnmatch', 'glob', 'glob+GLOBSTAR', 'glob+MATCHBASE'):
            if mode == 'fnmatch':
                if '/' in text:
                    continue
                got_f = lambda nm: F.fnmatch(nm, text, flags=F.EXTMATCH)  # noqa: E731
                exp_f = lambda nm: R.seg_match3(ast, nm, False)  # noqa: E731
            else:
                fn = ('EXTGLOB',) + (('GLOBSTAR',) if 'GLOBSTAR' in mode else ()) + (('MATCHBASE',) if 'MATCHBASE' in mode else ())
                if any(t[0] == 'gstar' for t in ast) and 'GLOBSTAR' not in fn:
                    continue
                ps = pathspec(fn)
                flags = flags_of(fn)
                got_f = lambda nm: G.globmatch(nm, text, flags=flags)  # noqa: E731
                exp_f = lambda nm: R.path_match3(ast, nm, ps)  # noqa: E731
            for nm in names:
                if mode == 'fnmatch' and '/' in nm:
                    continue
                exp = exp_f(nm)
                if exp is None:
                    continue
                try:
                    got = got_f(nm)
                except Exception as e:  # noqa: BLE001
                    got = f'raised {type(e).__name__}'
                n += 1
                if got is not exp:
                    ctx.disagree(f'unclosed extended group: expected {exp} got {got}|{mode}',
                                 {'mode': 'unclosed-group', 'pattern': text, 'meaning': gen.ser(ast), 'api': mode, 'name': nm, 'expected': exp, 'observed': got})
                    break
        ctx.mark_nontrivial(('unclosed', text))
    ctx.evals(n)
    ctx.count('unclosed_group_checks', n)


def walker_exclusion_check(ctx, root):
    """The file-system walker applies exclusions with dot-matching forced, however they are given (exclude=, inline `!`, pathlib)."""
    incs = ['.*', '**/.*', '*/.*', '.h*', '.*/*', 'd/.*', '**', '*', '.hd/.*', 'd/**/.*']
    excs = ['*', '?*', '[!a]*', '**', '*/*', '*.', '.h', '*/', '**/*d', '@(*)', '!(a)', '**/.*', '*/.*', '.*', '[.]*', '**/?y', 'd/*', '**/']
    base = G.EXTGLOB | G.GLOBSTAR
    idx = 0
    for ip in incs:
        for ep in excs:
            idx += 1
            if not ctx.mine(idx):
                continue
            wit = {'pattern': ip, 'exclude': ep, 'tree': TREE, 'mode': 'walker-exclusion'}
            try:
                alone = G.glob(ip, flags=base, root_dir=root)
                exm = G.compile(ep, flags=base | G.DOTGLOB)
                want = sorted(r for r in alone
                              if not exm.match(r if r.endswith('/') or not os.path.isdir(os.path.join(root, r)) else r + '/'))
                calls = [
                    ('glob(exclude=)', lambda: G.glob(ip, flags=base, root_dir=root, exclude=ep)),
                    ('glob(exclude=[..])', lambda: G.glob([ip], flags=base, root_dir=root, exclude=[ep])),
                    ('iglob(exclude=)', lambda: list(G.iglob(ip, flags=base, root_dir=root, exclude=ep))),
                    ('glob(inline !)', lambda: G.glob([ip, '!' + ep], flags=base | G.NEGATE, root_dir=root)),
                    ('glob(inline -)', lambda: G.glob([ip, '-' + ep], flags=base | G.NEGATE | G.MINUSNEGATE, root_dir=root)),
                    ('glob(bytes, exclude=)', lambda: [os.fsdecode(x) for x in G.glob(os.fsencode(ip), flags=base, root_dir=os.fsencode(root), exclude=os.fsencode(ep))]),
                    ('Path.glob(exclude=)', lambda: [str(x.relative_to(root)) + ('/' if ip.endswith('/') else '') for x in WP.Path(root).glob(ip, flags=base, exclude=ep)]),
                ]
                for api, fn in calls:
                    got = sorted(fn())
                    ctx.evals()
                    ctx.count('walker_exclusion_checks')
                    if api.startswith('Path'):
                        ok = sorted(x.rstrip('/') for x in got) == sorted(x.rstrip('/') for x in want)
                    else:
                        ok = got == want
                    if not ok:
                        ctx.disagree(f'walker exclusion ({api}) is not evaluated with dot-matching forced',
                                     dict(wit, api=api, expected=want[:12], observed=got[:12], inclusion_alone=sorted(alone)[:12]))
                        break
            except Exception as e:  # noqa: BLE001
                ctx.disagree(f'walker with exclusion raised {type(e).__name__}', dict(wit, exception=repr(e)[:200]))
    ctx.mark_nontrivial('walker-exclusion')


# ---- real trees ---------------------------------------------------------------------------------
TREE = ['a', 'b', '.h', '.hd/', '.hd/x', '.hd/.y', 'd/', 'd/a', 'd/.h', 'd/.hd/', 'd/.hd/z', 'd/e/', 'd/e/.k', 'd/e/f', '.a.', '..a']


# hidden names that are symlinks to directories (a recursive segment that follows links must still skip them), and a visible
# link to a hidden directory
TREE_LINKS = [('.hl', 'd'), ('d/.hl2', 'e'), ('ln', '.hd')]   # (no cycle: FOLLOW is used on this tree)


def make_tree():
    base, root = env.mknested('c03-')
    for e in TREE:
        p = os.path.join(root, e)
        if e.endswith('/'):
            os.makedirs(p, exist_ok=True)
        else:
            os.makedirs(os.path.dirname(p), exist_ok=True)
            open(p, 'w').close()
    for name, target in TREE_LINKS:
        os.symlink(target, os.path.join(root, name))
    return root


def real_tree_check(ctx, toks, fnames, root, idx):
    """No element of glob(p) may have a hidden segment at a position the pattern covers with a wildcard or `**`."""
    pat = gen.ser(toks)
    fn = tuple(fnames) + ('EXTGLOB',)
    gflags = flags_of(fn)
    ps = pathspec(fn)
    scandot = 'SCANDOTDIR' in fn
    try:
        res = G.glob(pat, flags=gflags, root_dir=root)
    except Exception as e:  # noqa: BLE001
        ctx.disagree(f'glob raised {type(e).__name__}', {'api': 'glob.glob', 'ast': toks, 'pattern': pat, 'flags': list(fn)})
        return
    ps_eval = pathspec(tuple(f for f in fn if f != 'NODOTDIR') + (() if scandot else ('NODOTDIR',)))
    for r in res:
        ctx.evals()
        ctx.count('real_tree_results_checked')
        exp = R.path_match3(toks, r, ps_eval)
        if exp is False:
            fid = findings.classify_path(toks, r, ps_eval, True)
            ctx.disagree(f'glob returned a path the pattern must not match (hidden/special segment)|{shape(toks)}|{"+".join(fn)}',
                         {'api': 'glob.glob', 'ast': toks, 'pattern': pat, 'flags': list(fn), 'path': r, 'expected': False,
                          'observed': True, 'tree': TREE}, fid)
    ctx.mark_nontrivial(('rt', pat, gflags))


def wcmatch_tree_check(ctx, root, idx):
    """WcMatch without HIDDEN never returns a file with a hidden component; with HIDDEN a pattern like `*` matches dot files."""
    # (an empty or absent file pattern selects every file - but no hidden one without HIDDEN; also with bytes arguments)
    for pat in ('*', '?*', '[!x]*', '@(*)', '.h|*', '!x', '', None, b'', b'*', '|', '*|'):
        for fl in (WM.RECURSIVE | WM.EXTMATCH, WM.RECURSIVE | WM.EXTMATCH | WM.FILEPATHNAME | WM.GLOBSTAR,
                   WM.RECURSIVE | WM.EXTMATCH | WM.HIDDEN):
            if isinstance(pat, bytes):
                res = [os.fsdecode(x) for x in WM.WcMatch(os.fsencode(root), pat, flags=fl).match()]
                pat = pat.decode()
            elif pat is None:
                res = WM.WcMatch(root, flags=fl).match()
                pat = ''
            else:
                res = WM.WcMatch(root, pat, flags=fl).match()
            if pat in ('', '|', '*|') and not fl & WM.FILEPATHNAME:
                pat = '*'
            ctx.evals()
            for r in res:
                ctx.count('real_tree_results_checked')
                rel = os.path.relpath(r, root)
                if not fl & WM.HIDDEN and any(s.startswith('.') for s in rel.split('/')):
                    ctx.disagree('WcMatch without HIDDEN returned a hidden file', {'api': 'WcMatch', 'pattern': pat, 'flags': fl, 'path': rel})
            if fl & WM.HIDDEN and pat in ('*', '?*', '@(*)', '!x'):
                want = {'a', 'b', '.h', '.a.', '..a', 'd/a', 'd/.h', '.hd/x', '.hd/.y', 'd/.hd/z', 'd/e/.k', 'd/e/f'}
                if pat == '!x':
                    want = {w for w in want if os.path.basename(w) != 'x'}
                got = {os.path.relpath(r, root) for r in res}
                if got != want:
                    ctx.disagree('WcMatch with HIDDEN: dot-matching is not forced on for the file pattern',
                                 {'api': 'WcMatch', 'pattern': pat, 'flags': fl, 'missing': sorted(want - got), 'extra': sorted(got - want)})
    ctx.mark_nontrivial(('wcmatch-tree', idx))


def run(ctx):
    quick = ctx.quick
    pool = gen.token_pool()
    root = make_tree()
    idx = 0
    try:
        if ctx.shard == 0:
            wcmatch_tree_check(ctx, root, 0)
        walker_exclusion_check(ctx, root)
        unclosed_group_check(ctx)
        for n in (1, 2):
            for toks in gen.enum_sequences(pool, n):
                idx += 1
                if n == 2 and quick and (idx * 2654435761) % 100 >= 4:
                    continue
                if n == 2 and not quick and (idx * 2654435761) % 100 >= 60:
                    continue
                if not ctx.mine(idx) or not gen.in_fragment(toks):
                    continue
                if ctx.out_of_time():
                    break
                with ctx.case(label=gen.ser(toks)):
                    fn_check(ctx, toks, FN_FLAGSETS[idx % 2], idx)
                    gfn = GL_FLAGSETS[idx % len(GL_FLAGSETS)]
                    gl_check(ctx, toks, gfn, idx, pathlib_too=(idx % 3 == 0))
                    if idx % 4 == 0:
                        rt = tuple(f for f in gfn if f != 'NODOTDIR') + (('SCANDOTDIR',) if idx % 8 == 0 else ())
                        real_tree_check(ctx, toks, rt, root, idx)
                        real_tree_check(ctx, toks, rt + ('FOLLOW',), root, idx)
                if idx % 600 == 1:
                    ctx.sample({'pattern': gen.ser(toks), 'fnmatch_flags': FN_FLAGSETS[idx % 2], 'glob_flags': list(GL_FLAGSETS[idx % len(GL_FLAGSETS)]),
                                'hidden_names': hidden_names(toks, ctx.rng_for('hn', idx))[:8]})
        # two-segment path patterns
        spool = gen.seg_pool_small()
        for s1, s2 in itertools.product(spool, repeat=2):
            idx += 1
            if (idx * 2654435761) % 100 >= (25 if quick else 100):
                continue
            if not ctx.mine(idx):
                continue
            if ctx.out_of_time():
                break
            toks = gen.join_segments([s1, s2], lead=False, trail=(idx % 9 == 0), seps=['/'])
            if not gen.in_fragment_path(toks):
                continue
            gfn = GL_FLAGSETS[idx % len(GL_FLAGSETS)]
            with ctx.case(label=gen.ser(toks)):
                gl_check(ctx, toks, gfn, idx, pathlib_too=(idx % 2 == 0))
                rt = tuple(f for f in gfn if f != 'NODOTDIR') + (('SCANDOTDIR',) if idx % 5 == 0 else ())
                real_tree_check(ctx, toks, rt, root, idx)
                if any(t[0] in ('gstar', 'gstarlong') for t in toks):
                    real_tree_check(ctx, toks, tuple(f for f in rt if f != 'SCANDOTDIR') + ('FOLLOW',), root, idx)
                    real_tree_check(ctx, toks, tuple(f for f in rt if f != 'SCANDOTDIR') + ('GLOBSTARLONG', 'FOLLOW', 'MATCHBASE'), root, idx)
        # every wildcard opener behind every kind of recursive / multi-separator prefix: the segment start is a segment start
        # no matter how the parser got there (merged globstars, doubled separators, escaped separators)
        GS, GL_ = (('gstar',),), (('gstarlong',),)
        prefixes = [([GS, GS], None), ([GS, GS], ['//']), ([(('lit', 'a'),), GS, GS], None), ([GS, GS, GS], None), ([GL_, GS], None),
                    ([GS, GL_], None), ([GS, (('lit', 'a'),)], None), ([(('lit', 'a'),)], ['//']), ([(('lit', 'a'),)], ['\\/']),
                    ([GS], ['//']), ([GS, GS], ['/', '\\/'])]
        openers = [s_ for s_ in spool if s_ not in (GS, GL_) and s_[0][0] != 'lit'] + [(('star',), ('sep', '/'), ('lit', 'x'))]
        for pi, (pre, seps) in enumerate(prefixes):
            for oi, op in enumerate(openers):
                idx += 1
                if quick and (idx * 2654435761) % 100 >= 50:
                    continue
                if not ctx.mine(idx):
                    continue
                segs = list(pre) + [op]
                sp = (['/'] * (len(segs) - 1))
                if seps:
                    sp[-len(seps):] = seps
                toks = gen.join_segments(segs, lead=False, trail=False, seps=sp)
                if not gen.in_fragment_path(toks) or gen.ambiguous_adjacency(toks):
                    continue
                for gfn in (('GLOBSTAR',), ('GLOBSTAR', 'DOTGLOB'), ('GLOBSTAR', 'GLOBSTARLONG', 'NODOTDIR'))[idx % 3:idx % 3 + 1] + (('GLOBSTAR', 'GLOBSTARLONG'),):
                    with ctx.case(label=gen.ser(toks)):
                        gl_check(ctx, toks, gfn, idx, pathlib_too=(idx % 2 == 0))
                        ctx.count('prefixed_opener_patterns')
        # exclusions
        atoms = [t for t in pool[:40]]
        k = 0
        for p, e in itertools.product(atoms, repeat=2):
            k += 1
            idx += 1
            if quick and k % 4:
                continue
            if not ctx.mine(idx):
                continue
            ptoks, etoks = (p,), (e,)
            if not gen.in_fragment(ptoks) or not gen.in_fragment(etoks):
                continue
            with ctx.case(label=('excl', gen.ser(ptoks), gen.ser(etoks))):
                exclusion_check(ctx, ptoks, etoks, idx, glob_mode=bool(k % 2))
        # random deeper ASTs
        k = 0
        limit = 80 if quick else 10 ** 9
        while k < limit and not ctx.out_of_time():
            k += 1
            rng = ctx.rng_for('rand', ctx.shard, k)
            if k % 2:
                toks = gen.make_fragment(gen.rand_tokens(rng, maxtok=rng.randint(1, 6), depth=rng.randint(0, 3), alpha='ab.'), rng)
                if not toks or gen.ambiguous_adjacency(toks) or not gen.in_fragment(toks):
                    continue
                with ctx.case(label=gen.ser(toks)):
                    fn_check(ctx, toks, FN_FLAGSETS[k % 3] if gen.count_groups(toks) == 0 else FN_FLAGSETS[k % 2], ('r', ctx.shard, k))
                    gl_check(ctx, toks, GL_FLAGSETS[k % len(GL_FLAGSETS)], ('r', ctx.shard, k), pathlib_too=True)
            else:
                toks = gen.rand_path_tokens(rng, maxseg=rng.randint(1, 3), alpha='ab.', depth=rng.randint(0, 2))
                if gen.ambiguous_adjacency(toks) or not gen.in_fragment_path(toks):
                    continue
                gfn = GL_FLAGSETS[k % len(GL_FLAGSETS)]
                with ctx.case(label=gen.ser(toks)):
                    gl_check(ctx, toks, gfn, ('r', ctx.shard, k), pathlib_too=True)
                    if not R.split_segments(toks)[0]:
                        real_tree_check(ctx, toks, tuple(f for f in gfn if f != 'NODOTDIR'), root, k)
        ctx.count('random_asts', k)
        for c in ('real_tree_results_checked', 'exclusion_checks', 'pathlib_match_checks', 'special_dir_checks'):
            ctx.count(c, 0)
    finally:
        shutil.rmtree(os.path.dirname(os.path.dirname(os.path.dirname(os.path.dirname(root)))), ignore_errors=True)


def replay(ctx, w):
    root = make_tree()
    try:
        api = w.get('api')
        fl = tuple(f for f in w.get('flags', ()) if f != 'EXTGLOB')
        if w.get('mode') == 'unclosed-group':
            unclosed_group_check(ctx)
        elif w.get('mode') == 'walker-exclusion':
            walker_exclusion_check(ctx, root)
        elif api == 'fnmatch':
            fn_check(ctx, w['ast'], tuple(w['flags']), 0)
        elif api in ('globmatch', 'PurePath.match'):
            gl_check(ctx, w['ast'], fl, 0, pathlib_too=True)
            # the recorded path itself
            ps = pathspec(tuple(w['flags']))
            if api == 'PurePath.match':
                ps.extmatchbase = True
                got = WP.PurePosixPath(w['path']).match(w['pattern'], flags=flags_of(w['flags']) & PATHLIB_MASK)
            else:
                got = G.globmatch(w['path'], w['pattern'], flags=flags_of(w['flags']))
            exp = R.path_match3(w['ast'], w['path'], ps)
            if exp is not None and got is not exp:
                ctx.disagree('replayed path', w, findings.classify_path(w['ast'], w['path'], ps, got))
        elif api == 'glob.glob':
            real_tree_check(ctx, w['ast'], fl, root, 0)
        elif api == 'WcMatch':
            wcmatch_tree_check(ctx, root, 0)
        elif 'east' in w:
            exclusion_check(ctx, w['ast'], w['east'], 0, w['glob_mode'])
    finally:
        shutil.rmtree(os.path.dirname(os.path.dirname(os.path.dirname(os.path.dirname(root)))), ignore_errors=True)
    return ctx.violations or None
