"""C06 - `**` does not traverse symlinked directories unless asked; glob terminates (DESIGN.md section 5, C06)."""
import os

from .. import gen, refmodel as R, tree as T, findings
from ..monitor import FSMonitor, BudgetExceeded, lexical_rel
from ..common import G, flags_of
from wcmatch import wcmatch as WM
from .c05 import model_spec
from .c16 import first_assignment_shape

SPEC = {
    'rule': ('trees biased to symlinks (to ancestors, siblings, themselves, hidden directories, files, nowhere; cycles included) '
             'are globbed by the real glob.glob with patterns holding `**` / `***` in first, middle and last position and next to '
             'literal link names under sampled subsets of {FOLLOW, GLOBSTARLONG, MATCHBASE, DOTGLOB}; the audit hook records every '
             'os.scandir with the lexical path by which the directory was reached. Without FOLLOW / `***`: every listed directory '
             'whose lexical path holds a symlink must be one the reference walker lists (link matched by a written segment); every '
             'returned path with a symlink before its last component must be a walker result; the number of listings must stay '
             'below a bound computed from the walker (a run exceeding 20x the bound is aborted by the hook and reported; the '
             'wall-clock watchdog is only ever inconclusive). With FOLLOW / `***` on cycle-free trees the result must equal the '
             'walker\'s follow-mode result. globmatch(REALPATH) must agree for paths through links. WcMatch without SYMLINKS must '
             'never list a symlinked directory. A case is one (tree, pattern, flag set); it is non-trivial when the tree has a '
             'symlinked directory and the pattern a recursive segment.'),
    'bounds': {'quick': {'trees_per_shard': 120, 'patterns_per_tree': 12}, 'thorough': {'trees': 'until the time budget', 'patterns_per_tree': 30}},
    'floor': {'quick': 10000, 'thorough': 100000},
    'required_counters': ['listing_rule_checks', 'listed_dirs_with_symlink_component', 'result_rule_checks', 'step_bound_checks',
                          'follow_mode_comparisons', 'realpath_link_candidates', 'wcmatch_runs', 'cyclic_trees'],
    'budget': {'quick': 50, 'thorough': 540},
    'shard_timeout': {'quick': 400, 'thorough': 1500},
    'assumptions': ['"terminates" is restated as a bound on the number of directory listings, computed per case from the reference walker',
                    'follow-mode equality is only asserted on trees without directory cycles'],
}

# written segments may walk round a symlink cycle as often as the pattern has segments: the reference walker goes deep enough
# for every pattern generated here, and nothing is asserted about paths beyond its horizon
WALK_DEPTH = 26

LINKS = ['dir', 'dir', 'parent', 'self', 'sibling', 'sibling', 'hidden', 'dot', 'file', 'dangling']


def make_walker(root, fn, strict=True):
    return T.Walker(root, dot='DOTGLOB' in fn, globstar='GLOBSTAR' in fn, globstarlong='GLOBSTARLONG' in fn, follow='FOLLOW' in fn,
                    matchbase='MATCHBASE' in fn, strict_links=strict, maxdepth=WALK_DEPTH)


def through_link_pattern(rng, tr):
    """Two non-adjacent recursive segments aimed at a path that goes through a symlinked directory: the link falls into
    the first `**`, a written segment follows, then a second `**` (optionally a written last component)."""
    root = tr.root
    cands = []
    for c in tr.candidates(5):
        parts = c.split('/')
        pos = symlink_positions(root, c)
        if pos and len(parts) >= min(pos) + 3:
            cands.append((parts, min(pos)))
    if not cands:
        return None
    parts, i = rng.choice(cands)
    k = rng.randint(i + 1, len(parts) - 2)
    segs = [(('gstar',),), tuple(('lit', ch) for ch in parts[k]), (('gstar',),)]
    if rng.random() < 0.5:
        segs.append(tuple(('lit', ch) for ch in parts[-1]) if rng.random() < 0.6 else (('star',),))
    return gen.join_segments(segs, None, lead=False, trail=False)


def mixed_globstar_pattern(rng, tr):
    """One pattern holding both a `**` and a `***` (in either order) around a written segment: each recursive segment keeps its
    own rule about symlinked directories while the walks they start are interleaved."""
    names = sorted({p.split('/')[-1] for p in tr.snap})
    if not names:
        return None
    first, second = rng.choice([((('gstar',),), (('gstarlong',),)), ((('gstarlong',),), (('gstar',),))])
    segs = [first, tuple(('lit', ch) for ch in rng.choice(names)), second]
    r = rng.random()
    if r < 0.3:
        segs.append(tuple(('lit', ch) for ch in rng.choice(names)))
    elif r < 0.45:
        segs.append((('star',),))
    if rng.random() < 0.25:
        segs.insert(0, tuple(('lit', ch) for ch in rng.choice(names)))
    return gen.join_segments(segs, None, lead=False, trail=False)


def link_pattern(rng, tr):
    """Patterns with recursive segments in first / middle / last position and next to literal link names."""
    r0 = rng.random()
    if r0 < 0.3:
        t = through_link_pattern(rng, tr)
        if t:
            return t
    elif r0 < 0.45:
        t = mixed_globstar_pattern(rng, tr)
        if t:
            return t
    ents = tr.lexical()
    links = [p for p, e in tr.snap.items() if e['link']]
    base = (rng.choice(links) if links and rng.random() < 0.6 else (rng.choice(ents) if ents else 'a')).split('/')
    segs = []
    gs = (('gstarlong',),) if rng.random() < 0.3 else (('gstar',),)
    pos = rng.choice(['first', 'middle', 'last', 'both', 'none'])
    if pos in ('first', 'both'):
        segs.append(gs)
    for i, nm in enumerate(base):
        r = rng.random()
        if r < 0.55:
            segs.append(tuple(('lit', c) for c in nm))
        else:
            segs.append(gen.generalise_name(rng, nm, True))
        if pos == 'middle' and i == 0:
            segs.append(gs)
    if pos in ('last', 'both'):
        segs.append((('gstar',),) if rng.random() < 0.8 else (('gstarlong',),))
    elif rng.random() < 0.4:
        segs.append((('star',),))
    out = []
    for s in segs:
        if out and s[0][0] in ('gstar', 'gstarlong') and out[-1][0][0] in ('gstar', 'gstarlong'):
            continue
        out.append(s)
    return gen.join_segments(out, rng, lead=False, trail=rng.random() < 0.15)


def symlink_positions(root, rel):
    parts = rel.split('/') if rel else []
    return [i for i in range(len(parts)) if os.path.islink(os.path.join(root, *parts[:i + 1]))]


def check_glob(ctx, tr, rng, k, j, mon, toks=None, fn=None):
    toks = link_pattern(rng, tr) if toks is None else toks
    if not toks or gen.ambiguous_adjacency(toks):
        return
    text = gen.ser(toks)
    given = fn is not None
    if fn is None:
        fn = ['EXTGLOB', 'GLOBSTAR'] + [f for f in ('FOLLOW', 'GLOBSTARLONG', 'MATCHBASE', 'DOTGLOB') if rng.random() < 0.3]
    else:
        fn = ['EXTGLOB', 'GLOBSTAR'] + [f for f in fn if f not in ('EXTGLOB', 'GLOBSTAR')]
    if not given and any(t[0] == 'gstarlong' for t in toks) and any(t[0] == 'gstar' for t in toks) and 'GLOBSTARLONG' not in fn and rng.random() < 0.8:
        fn.append('GLOBSTARLONG')   # a pattern mixing `**` and `***` is only interesting when `***` is recognised
        ctx.count('mixed_globstar_patterns')
    has_long = any(t[0] == 'gstarlong' for t in toks) and 'GLOBSTARLONG' in fn
    following = ('FOLLOW' in fn and 'GLOBSTARLONG' not in fn) or has_long or ('FOLLOW' in fn and 'GLOBSTARLONG' in fn and 'MATCHBASE' in fn)
    cyclic = tr.has_dir_cycle()
    root = tr.root
    flags = flags_of(fn)
    wit = {'tree': tr.spec, 'ast': toks, 'pattern': text, 'flags': fn}
    w = make_walker(root, fn, strict=True)
    if following and cyclic:
        # the kernel decides where such a walk ends; only termination (bounded by ELOOP) is observed, via the watchdog
        return
    try:
        exp = w.glob(toks)
    except RecursionError:
        return
    bound = 4 * w.ls_calls + 24
    mon.arm(budget=20 * bound)
    aborted = False
    try:
        res = G.glob(text, flags=flags, root_dir=root)
    except BudgetExceeded:
        aborted = True
        res = []
    except Exception as e:  # noqa: BLE001
        mon.disarm()
        ctx.disagree(f'glob raised {type(e).__name__}', dict(wit, exception=repr(e)[:200]))
        return
    events = mon.disarm()
    if not aborted and (k + j) % 2 == 0:
        # written segments go through links, and recursive ones follow them or not, in the same way when the root is a dir_fd
        fd_ = os.open(root, os.O_RDONLY)
        try:
            res_fd = G.glob(text, flags=flags, dir_fd=fd_)
        except Exception as e:  # noqa: BLE001
            res_fd = f'raised {type(e).__name__}'
        finally:
            os.close(fd_)
        ctx.count('dir_fd_walks')
        if res_fd != res:
            ctx.disagree('glob through dir_fd treats symlinked directories differently from glob through root_dir',
                         dict(wit, root_dir=res[:12], dir_fd=res_fd if isinstance(res_fd, str) else res_fd[:12]))
            return
    listed = [lexical_rel(root, e_.rstrip('/')) for e_ in events]
    ctx.evals()
    ctx.count('step_bound_checks')
    if aborted or len(listed) > bound:
        ctx.disagree('number of directory listings exceeds the bound computed from the tree (termination restated as a step bound)',
                     dict(wit, listings=len(listed), bound=bound, aborted_by_hook=aborted, walker_listings=w.ls_calls,
                          sample=[repr(x) for x in listed[:12]]))
        return
    if not following:
        # (1) listing rule
        ctx.count('listing_rule_checks')
        for L in listed:
            if L is None:
                continue
            if symlink_positions(root, L):
                ctx.count('listed_dirs_with_symlink_component')
                if len(L.split('/')) >= WALK_DEPTH - 2:
                    ctx.count('beyond_walker_horizon')
                    continue
                if L not in w.listed:
                    ctx.disagree('glob lists a directory through a path in which a symlink occupies a position matched by `**`',
                                 dict(wit, listed=L, walker_lists=sorted(w.listed)[:12]))
                    return
        # (2) result rule
        ctx.count('result_rule_checks')
        allowed = {T.norm_result(p) for p in exp}
        for p in res:
            q = T.norm_result(p)
            pos = symlink_positions(root, q)
            if pos and min(pos) < len(q.split('/')) - 1 and q not in allowed and len(q.split('/')) < WALK_DEPTH - 2:
                fid = findings.classify_path(toks, p, model_spec(fn), True)
                ctx.disagree('glob returns a path that goes through a symlinked directory at a `**` position',
                             dict(wit, path=p), fid)
                return
    else:
        # (4) links are traversed: equality with the walker's follow-mode result
        ctx.count('follow_mode_comparisons')
        must = {T.norm_result(p) for p, v in exp.items() if v is True}
        may = {T.norm_result(p) for p in exp}
        got = {T.norm_result(p) for p in res}
        if must - got or got - may:
            miss = sorted(must - got)[:6]
            extra = sorted(got - may)[:6]
            fid = None
            for pth, obs in [(x, False) for x in miss] + [(x, True) for x in extra]:
                fid = findings.classify_path(toks, pth, model_spec(fn), obs)
                break
            ctx.disagree('with FOLLOW / `***` the result differs from following symlinked directories', dict(wit, missing=miss, extra=extra), fid)
            return
        # (4b) and globmatch(REALPATH) applies the same rule: what the walk reached through a link is accepted
        for q in sorted(x for x in must & got if symlink_positions(root, x))[:40]:
            try:
                m = G.globmatch(q, text, flags=flags | G.REALPATH, root_dir=root)
            except Exception as e:  # noqa: BLE001
                m = f'raised {type(e).__name__}'
            ctx.evals()
            ctx.count('follow_mode_realpath_checks')
            if m is not True:
                cwd = os.getcwd()
                os.chdir(root)
                try:
                    fa = first_assignment_shape(toks, fn, q, implicit='MATCHBASE' in fn and not R.has_sep(toks))
                finally:
                    os.chdir(cwd)
                ctx.disagree('with FOLLOW / `***` globmatch(REALPATH) rejects a path that the walk reaches through a symlinked directory',
                             dict(wit, candidate=q, observed=m), 'KF-REALPATH-FIRST-ASSIGNMENT' if fa else None)
                break
    # (6a) a copy of a compiled REALPATH matcher (pickle, deepcopy) applies the same rule as the original, FOLLOW or not
    if j % 3 == 0:
        import copy as _copy
        import pickle as _pickle
        try:
            m0 = G.compile(text, flags=flags | G.REALPATH)
            copies = [('pickle', _pickle.loads(_pickle.dumps(m0))), ('deepcopy', _copy.deepcopy(m0)), ('copy', _copy.copy(m0))]
            for c in [x for x in tr.candidates(5) if symlink_positions(root, x)][:25]:
                a0 = m0.match(c, root_dir=root)
                for what, mc in copies:
                    ctx.count('realpath_spelling_variants')
                    if mc.match(c, root_dir=root) is not a0:
                        ctx.disagree(f'a {what} of a compiled REALPATH matcher treats symlinked directories differently from the original',
                                     dict(wit, candidate=c, original=a0))
                        raise StopIteration
        except StopIteration:
            return
        except Exception as e:  # noqa: BLE001
            ctx.disagree(f'copying a compiled REALPATH matcher raised {type(e).__name__}', dict(wit, exception=repr(e)[:160]))
            return
    # (6) globmatch(REALPATH) applies the same rule to the path it is given
    segs_ = R.split_segments(toks)[1]
    nullable_seg = any(R.nullable(R.norm_seg(sg)) for sg in segs_ if not R.seg_is_gstar(sg, R.PathSpec(globstar=True, globstarlong=True)))
    if not nullable_seg:
        cands = [c for c in tr.candidates(5) if symlink_positions(root, c)]
        rng.shuffle(cands)
        cands = cands[:30]
        allowed_must = {T.norm_result(p) for p, v in exp.items() if v is True}
        allowed = {T.norm_result(p) for p in exp}
        wloose = make_walker(root, fn, strict=False)
        try:
            loose = {T.norm_result(p) for p in wloose.glob(toks)}
        except RecursionError:
            loose = allowed
        for c in cands:
            try:
                m = G.globmatch(c, text, flags=flags | G.REALPATH, root_dir=root)
            except Exception as e:  # noqa: BLE001
                ctx.disagree(f'globmatch(REALPATH) raised {type(e).__name__}', dict(wit, candidate=c))
                break
            ctx.evals()
            ctx.count('realpath_link_candidates')
            # the rule does not depend on how the call is spelled: an exclusion that excludes nothing, the root as dir_fd,
            # a compiled matcher, the filter form, bytes
            if k % 2 == 0 or j % 3 == 0:
                fd = os.open(root, os.O_RDONLY)
                try:
                    variants = [
                        ('exclude= that matches nothing', lambda: G.globmatch(c, text, flags=flags | G.REALPATH, root_dir=root, exclude='zz-none*')),
                        ('inline exclusion that matches nothing', lambda: G.globmatch(c, [text, '!zz-none*'], flags=flags | G.REALPATH | G.NEGATE, root_dir=root)),
                        ('dir_fd', lambda: G.globmatch(c, text, flags=flags | G.REALPATH, dir_fd=fd)),
                        ('dir_fd + exclude=', lambda: G.globmatch(c, text, flags=flags | G.REALPATH, dir_fd=fd, exclude='zz-none*')),
                        ('compiled matcher', lambda: G.compile(text, flags=flags | G.REALPATH).match(c, root_dir=root)),
                        ('globfilter', lambda: bool(G.globfilter([c], text, flags=flags | G.REALPATH, root_dir=root))),
                        ('bytes', lambda: G.globmatch(os.fsencode(c), os.fsencode(text), flags=flags | G.REALPATH, root_dir=os.fsencode(root))),
                    ]
                    if '/' in c:
                        # the same file named with a doubled separator (first / last / every separator of the path)
                        parts_ = c.split('/')
                        for what_, c2 in (('first separator doubled', parts_[0] + '//' + '/'.join(parts_[1:])),
                                          ('last separator doubled', '/'.join(parts_[:-1]) + '//' + parts_[-1]),
                                          ('every separator doubled', '//'.join(parts_))):
                            variants.append((what_, lambda c2=c2: G.globmatch(c2, text, flags=flags | G.REALPATH, root_dir=root)))
                    # the implicit `**` that NEGATEALL supplies for an exclusion-only list is an ordinary `**`
                    try:
                        fl_ = (flags | G.REALPATH | G.GLOBSTAR) & ~G.MATCHBASE
                        e1 = G.globmatch(c, '**', flags=fl_, root_dir=root)
                        e2 = G.globmatch(c, ['!zz-none*'], flags=fl_ | G.NEGATE | G.NEGATEALL, root_dir=root)
                        e3 = G.globmatch(c, '-zz-none*', flags=fl_ | G.NEGATE | G.NEGATEALL | G.MINUSNEGATE, root_dir=root)
                    except Exception as e:  # noqa: BLE001
                        e1, e2, e3 = None, f'raised {type(e).__name__}', None
                    ctx.count('realpath_spelling_variants')
                    if not (e1 == e2 == e3):
                        ctx.disagree('the implicit `**` of NEGATEALL does not apply the symlink rule of a written `**`',
                                     dict(wit, candidate=c, written=e1, implicit=e2, implicit_minus=e3))
                    for what, call_ in variants:
                        try:
                            mv = call_()
                        except Exception as e:  # noqa: BLE001
                            mv = f'raised {type(e).__name__}'
                        ctx.count('realpath_spelling_variants')
                        if mv != m:
                            ctx.disagree(f'globmatch(REALPATH) answers differently through another spelling of the same call: {what}',
                                         dict(wit, candidate=c, plain=m, variant=mv, spelling=what))
                            break
                finally:
                    os.close(fd)
            pos = symlink_positions(root, c)
            through = min(pos) < len(c.split('/')) - 1
            if m and through and c not in loose:
                fid = findings.classify_path(toks, c + ('/' if os.path.isdir(os.path.join(root, c)) else ''), model_spec(fn), True)
                segs = R.split_segments(toks)
                if fid is None and segs[2] and segs[1] and R.seg_is_gstar(segs[1][-1], R.PathSpec(globstar=True, globstarlong='GLOBSTARLONG' in fn)) \
                        and not os.path.isdir(os.path.join(root, c)):
                    fid = 'KF-REALPATH-GLOBSTAR-SLASH-FILE'
                ctx.disagree('globmatch(REALPATH) accepts a path that goes through a symlinked directory at a `**` position',
                             dict(wit, candidate=c), fid)
                break
            if not m and c in allowed_must:
                cwd = os.getcwd()
                os.chdir(root)
                try:
                    fa = first_assignment_shape(toks, fn, c, implicit='MATCHBASE' in fn and not R.has_sep(toks))
                finally:
                    os.chdir(cwd)
                fid = 'KF-REALPATH-FIRST-ASSIGNMENT' if fa else findings.classify_path(toks, c, model_spec(fn), False)
                ctx.disagree('globmatch(REALPATH) rejects a path reached through explicitly written segments', dict(wit, candidate=c), fid)
                break
    if any(e['link'] and e['isdir'] for e in tr.snap.values()) and any(t[0] in ('gstar', 'gstarlong') for t in toks):
        ctx.mark_nontrivial((ctx.shard, k, j))
    if j == 0 and k % 10 == 0:
        ctx.sample({'tree': tr.spec, 'pattern': text, 'flags': fn, 'listings': [repr(x) for x in listed[:8]], 'bound': bound, 'result': res[:6]})


def check_wcmatch(ctx, tr, rng, k, mon):
    """WcMatch without SYMLINKS never lists a symlinked directory and lists each real directory at most once."""
    root = tr.root
    real_dirs = 1 + sum(1 for e in tr.snap.values() if e['isdir'] and not e['link'])
    # the root itself may be reached through a symlink (it is named explicitly and entered): that changes nothing below it
    link = os.path.join(os.path.dirname(root), 'root-through-link')
    if not os.path.lexists(link):
        os.symlink(os.path.basename(root), link)
    for fi, fl in enumerate((WM.RECURSIVE | WM.HIDDEN, WM.RECURSIVE, WM.RECURSIVE | WM.HIDDEN | WM.FILEPATHNAME | WM.GLOBSTAR | WM.MATCHBASE,
                             WM.RECURSIVE | WM.HIDDEN, WM.RECURSIVE | WM.HIDDEN)):
        root_arg = root if fi < 3 else (link if fi == 3 else link + '/')
        mon.arm(budget=20 * real_dirs + 40)
        aborted = False
        try:
            WM.WcMatch(root_arg if (fi < 3 or k % 2) else os.fsencode(root_arg), rng.choice(['*', 'a*|b', '**/a']) if fi < 3 else None, flags=fl).match()
        except BudgetExceeded:
            aborted = True
        events = mon.disarm()
        listed = [lexical_rel(root_arg.rstrip('/'), e_.rstrip('/')) for e_ in events]
        ctx.evals()
        ctx.count('wcmatch_runs')
        if fi >= 3:
            ctx.count('wcmatch_symlinked_root_runs')
        wit = {'tree': tr.spec, 'flags': fl, 'root': 'real' if fi < 3 else 'a symlink to the root' + ('/' if fi == 4 else '')}
        if aborted or len(listed) > real_dirs:
            ctx.disagree('WcMatch without SYMLINKS lists more directories than the tree has (step bound)',
                         dict(wit, listings=len(listed), real_directories=real_dirs, aborted_by_hook=aborted))
            return
        for L in listed:
            if L and symlink_positions(root, L):
                ctx.disagree('WcMatch without SYMLINKS lists a symlinked directory', dict(wit, listed=L))
                return


# hand-built cycle-free trees in which recursive walks started by different segments of one pattern interleave, and every
# combination of `**` / `***` around written segments (the deterministic part: it does not depend on the number of shards)
FIXED_TREES = [
    [('A', 'd', None), ('A/m', 'd', None), ('A/m/z', 'f', None), ('A/lnk', 'l', '../C'), ('B', 'd', None), ('B/m', 'd', None),
     ('B/m/z', 'f', None), ('B/lnk', 'l', '../C'), ('C', 'd', None), ('C/m', 'd', None), ('C/m/z', 'f', None)],
    [('m', 'd', None), ('m/a', 'd', None), ('m/a/m', 'd', None), ('m/a/m/z', 'f', None), ('m/l', 'l', '../t'), ('t', 'd', None),
     ('t/m', 'd', None), ('t/m/z', 'f', None), ('t/k', 'l', 'm'), ('a', 'd', None), ('a/m', 'l', '../t/m')],
    [('x', 'd', None), ('x/m', 'd', None), ('x/m/l', 'l', '../../y'), ('x/m/z', 'f', None), ('y', 'd', None), ('y/m', 'd', None),
     ('y/m/z', 'f', None), ('y/q', 'd', None), ('y/q/m', 'd', None), ('y/q/m/z', 'f', None), ('l0', 'l', 'y/q')],
]


def fixed_scenarios(ctx, mon):
    GS, GL_ = (('gstar',),), (('gstarlong',),)
    lit = lambda x: tuple(('lit', c) for c in x)  # noqa: E731
    idx = 0
    for ti, spec in enumerate(FIXED_TREES):
        pats = []
        for g1 in (GS, GL_):
            for mid in (lit('m'), (('star',),), lit('lnk'), lit('l'), (('q',),)):
                for g2 in (GS, GL_, None):
                    for last in (None, lit('z'), (('star',),)):
                        segs = [g1, mid] + ([g2] if g2 else []) + ([last] if last else [])
                        pats.append(segs)
                        pats.append([(('star',),)] + segs)
        # adjacent recursive segments are one: `**/**` follows nothing, `**/***` and `***/**` follow links (under GLOBSTARLONG)
        for a, b in ((GS, GS), (GS, GL_), (GL_, GS), (GL_, GL_)):
            for tail in ([], [lit('z')], [lit('m')], [(('star',),)], [lit('m'), (('star',),)]):
                pats.append([a, b] + tail)
                pats.append([lit('A'), a, b] + tail)
                pats.append([a, b, a] + tail)
        todo = []
        for pi, segs in enumerate(pats):
            for fi, fn in enumerate((('GLOBSTARLONG',), ('GLOBSTARLONG', 'FOLLOW'), (), ('FOLLOW',), ('GLOBSTARLONG', 'DOTGLOB'))):
                idx += 1
                if ctx.mine(idx):
                    todo.append((segs, fn))
        # one-segment patterns behind MATCHBASE's implicit prefix (a `***` exactly under GLOBSTARLONG|FOLLOW, an ordinary `**` otherwise);
        # a pattern that is itself a recursive segment merges with the prefix
        for segs in ([GS], [GL_], [lit('z')], [(('star',),)], [lit('m')], [lit('lnk')], [(('q',),)]):
            for fn in (('MATCHBASE', 'GLOBSTARLONG', 'FOLLOW'), ('MATCHBASE',), ('MATCHBASE', 'FOLLOW'), ('MATCHBASE', 'GLOBSTARLONG'),
                       ('MATCHBASE', 'GLOBSTARLONG', 'FOLLOW', 'DOTGLOB')):
                idx += 1
                if ctx.mine(idx):
                    todo.append((segs, fn))
        if not todo:
            continue
        with T.Tree(spec, 'c06f-') as tr:
            for segs, fn in todo:
                toks = gen.join_segments(segs, None, lead=False, trail=False)
                with ctx.case(timeout=20, label=('fixed', ti, gen.ser(toks), fn)):
                    check_glob(ctx, tr, ctx.rng_for('fx', ti, gen.ser(toks), fn), 0, 0, mon, toks=toks, fn=list(fn))
                    ctx.count('fixed_scenario_cases')


def implicit_globstar_scenarios(ctx):
    """The `**` that NEGATEALL supplies to a list of exclusions alone walks exactly like a written `**` (it is not a `***`)."""
    idx = 0
    for ti, spec in enumerate(FIXED_TREES):
        for fn in ((), ('FOLLOW',), ('GLOBSTARLONG',), ('GLOBSTARLONG', 'FOLLOW'), ('DOTGLOB',), ('MARK',), ('NODIR',)):
            idx += 1
            if not ctx.mine(idx):
                continue
            with T.Tree(spec, 'c06n-') as tr, ctx.case(timeout=30, label=('implicit-globstar', ti, fn)):
                fl = flags_of(('GLOBSTAR',) + fn)
                want = sorted(T.norm_result(p) for p in G.glob('**', flags=fl, root_dir=tr.root))
                for what, call_ in (
                        ('!x, NEGATE|NEGATEALL', lambda: G.glob('!zz-none*', flags=fl | G.NEGATE | G.NEGATEALL, root_dir=tr.root)),
                        ('[!x, !y] without GLOBSTAR', lambda: G.glob(['!zz-none*', '!zz-nil'], flags=(fl & ~G.GLOBSTAR) | G.NEGATE | G.NEGATEALL, root_dir=tr.root)),
                        ('-x, MINUSNEGATE', lambda: G.glob('-zz-none*', flags=fl | G.NEGATE | G.NEGATEALL | G.MINUSNEGATE, root_dir=tr.root)),
                        ('bytes', lambda: [os.fsdecode(p) for p in G.glob(b'!zz-none*', flags=fl | G.NEGATE | G.NEGATEALL, root_dir=os.fsencode(tr.root))]),
                        ('iglob', lambda: list(G.iglob(('!zz-none*',), flags=fl | G.NEGATE | G.NEGATEALL, root_dir=tr.root)))):
                    try:
                        got = sorted(T.norm_result(p) for p in call_())
                    except Exception as e:  # noqa: BLE001
                        got = f'raised {type(e).__name__}'
                    ctx.evals()
                    ctx.count('implicit_globstar_walks')
                    if got != want:
                        ctx.disagree('the implicit `**` of NEGATEALL does not walk like a written `**`',
                                     {'tree': spec, 'flags': list(fn), 'call': what, 'written': want[:40],
                                      'implicit': got if isinstance(got, str) else got[:40],
                                      'only_implicit': got if isinstance(got, str) else sorted(set(got) - set(want))[:10],
                                      'only_written': [] if isinstance(got, str) else sorted(set(want) - set(got))[:10]})
                        break
                if want:
                    ctx.mark_nontrivial(('implicit-globstar', ti, fn))
                # the matcher side: MATCHBASE's implicit prefix is a `**` whether or not GLOBSTAR is among the flags, and it is
                # the written `**/` in front of the pattern
                if fn in ((), ('FOLLOW',), ('DOTGLOB',)):
                    cands = [c for c in tr.candidates(5) if symlink_positions(tr.root, c)][:40] + tr.candidates(2)[:10]
                    for pat in ('z', '*', 'm', '?', 'l*'):
                        base = flags_of(fn) | G.REALPATH
                        for c in cands:
                            try:
                                a = G.globmatch(c, pat, flags=base | G.MATCHBASE, root_dir=tr.root)
                                b = G.globmatch(c, pat, flags=base | G.MATCHBASE | G.GLOBSTAR, root_dir=tr.root)
                                w_ = G.globmatch(c, '**/' + pat, flags=base | G.GLOBSTAR, root_dir=tr.root)
                                cb = G.compile(os.fsencode(pat), flags=base | G.MATCHBASE).match(os.fsencode(c), root_dir=os.fsencode(tr.root))
                            except Exception as e:  # noqa: BLE001
                                a, b, w_, cb = f'raised {type(e).__name__}', None, None, None
                            ctx.evals(4)
                            ctx.count('implicit_prefix_realpath_checks')
                            if not (a == b == w_ == cb):
                                ctx.disagree('MATCHBASE\'s implicit prefix does not apply the symlink rule of a written `**/` when GLOBSTAR is not among the flags',
                                             {'tree': spec, 'flags': list(fn) + ['REALPATH'], 'pattern': pat, 'candidate': c, 'matchbase': a,
                                              'matchbase_globstar': b, 'written_prefix': w_, 'matchbase_bytes_compiled': cb})
                                break


def run(ctx):
    quick = ctx.quick
    mon = FSMonitor.get()
    fixed_scenarios(ctx, mon)
    implicit_globstar_scenarios(ctx)
    k = 0
    limit = 120 if quick else 10 ** 9
    while k < limit and not ctx.out_of_time():
        k += 1
        rng = ctx.rng_for('t', ctx.shard, k)
        spec = T.gen_spec(rng, max_entries=16, maxdepth=4, p_link=0.4, link_kinds=LINKS)
        with T.Tree(spec, 'c06-') as tr:
            if tr.has_dir_cycle():
                ctx.count('cyclic_trees')
            for j in range(12 if quick else 30):
                with ctx.case(timeout=20, label=(ctx.shard, k, j)):
                    check_glob(ctx, tr, rng, k, j, mon)
            with ctx.case(timeout=20, label=(ctx.shard, k, 'wcmatch')):
                check_wcmatch(ctx, tr, rng, k, mon)
    ctx.count('trees', k)
    for c in ('follow_mode_comparisons', 'realpath_link_candidates', 'listed_dirs_with_symlink_component', 'cyclic_trees'):
        ctx.count(c, 0)


def replay(ctx, w):
    import random
    spec = [tuple(x) for x in w['tree']]
    mon = FSMonitor.get()
    with T.Tree(spec, 'c06r-') as tr:
        if 'ast' in w:
            toks, fn = w['ast'], list(w['flags'])
            for sd in range(4):   # (the candidate sample of the REALPATH rule is drawn from the rng)
                check_glob(ctx, tr, random.Random(sd), 0, 1, mon, toks=tuple(tuple(t) if isinstance(t, list) else t for t in toks), fn=fn)
                if ctx.violations:
                    break
        else:
            check_wcmatch(ctx, tr, random.Random(0), 0, mon)
    return ctx.violations or None
