"""C07 - pattern lists, exclusions, SPLIT and BRACE decompose into single-pattern matches (DESIGN.md section 5, C07)."""
from .. import gen, refmodel as R, findings
from ..composite import rand_composite
from ..common import F, G, flags_of
from .c02 import pathspec

SPEC = {
    'rule': ('composite calls (up to 4 inclusion and 3 exclusion patterns; exclusions through exclude= or inline `!p` / `-p`; '
             'pieces joined by top-level `|` under SPLIT, brace sets / ranges / prefix{..}suffix under BRACE; NEGATEALL, DOTMATCH, '
             'NODIR, GLOBSTAR at random) are built so that their expanded single patterns are known by construction; the real '
             'fnmatch/globmatch one-shot call, filter, compile().match and translate() are run on the composite and on every '
             'single; composite(name) must equal any(inclusion singles) and not any(exclusion singles with dot-matching forced), '
             'order and repetition must not matter, exclude= / `!` / `-` spellings must agree, and translate() must return one '
             'regex per distinct expanded pattern. On a sample the singles are also judged by the reference model. A case is one '
             'composite; it is non-trivial when it has an exclusion or at least two expanded inclusions.'),
    'bounds': {'quick': {'composites_per_shard': 260}, 'thorough': {'composites': 'until the time budget'}},
    'floor': {'quick': 100000, 'thorough': 1000000},
    'required_counters': ['decomposition_checks', 'exclusion_spelling_checks', 'permutation_checks', 'translate_length_checks',
                          'negateall_cases', 'split_cases', 'brace_cases', 'model_checks', 'polarity_by_expansion_cases'],
    'budget': {'quick': 45, 'thorough': 480},
    'shard_timeout': {'quick': 400, 'thorough': 1500},
    'assumptions': ['single patterns are evaluated by wcmatch itself (the decomposition law) and, on a sample, by the reference '
                    'model; the generator escapes every character that BRACE/SPLIT/NEGATE could reinterpret'],
}


def names_for(ctx, c, rng):
    toks = tuple(t for _x, ast in (c.inc + c.exc) for t in ast)
    if c.path_mode:
        names = gen.path_universe(toks, rng, cap=160)
        names += ['.a', 'a/.b', '.', 'a/', 'b/a/']
    else:
        names, _ = gen.name_universe(toks, rng, maxlen=3, sigma_cap=4, derivations=8)
        names += ['.a', '.', '..', '.ab']
    for _t, ast in c.inc + c.exc:
        d = gen.derive(rng, tuple(('star',) if t[0] in ('gstar', 'gstarlong') else t for t in ast), 'ab.c')
        if d:
            names.append(d)
            names.append('.' + d)
            # a name is matched whole: one that continues with a line feed is another name (decomposition only, the model skips them)
            names.append(d + '\n')
    names.append('a\n')
    return [n for n in dict.fromkeys(names) if n]


def check_composite(ctx, c, rng, k):
    mod = G if c.path_mode else F
    one = mod.globmatch if c.path_mode else mod.fnmatch
    flt = mod.globfilter if c.path_mode else mod.filter
    flags = flags_of(c.flags)
    structural = {'NEGATE', 'MINUSNEGATE', 'NEGATEALL', 'SPLIT', 'BRACE'}
    sflags = flags_of(f for f in c.flags if f not in structural)
    eflags = flags_of(f for f in c.flags if f not in structural and f != 'NODIR') | mod.DOTMATCH
    kw = {'exclude': c.exclude} if c.exclude is not None else {}
    names = names_for(ctx, c, rng)
    wit = c.describe()
    if k % 2 == 0:
        # the same texts read under a neighbouring flag set first (results discarded): how a text was split or expanded under
        # other flags must not leak into this call
        for other in (mod.EXTMATCH, mod.BRACE, mod.SPLIT, mod.NEGATE):
            try:
                mod.compile(c.patterns, flags=flags ^ other, **kw).match(names[0] if names else 'a')
                mod.translate(c.patterns, flags=flags ^ other, **kw)
            except Exception:  # noqa: BLE001
                pass
        ctx.count('neighbouring_flag_precalls')
    try:
        m = mod.compile(c.patterns, flags=flags, **kw)
        inc_m = [mod.compile(t, flags=sflags) for t, _ in c.inc]
        exc_m = [mod.compile(t, flags=eflags) for t, _ in c.exc]
        if not c.inc and c.exc and 'NEGATEALL' in c.flags:
            inc_m = [mod.compile('**', flags=sflags | G.GLOBSTAR) if c.path_mode else mod.compile('*', flags=sflags)]
            ctx.count('negateall_cases')
    except Exception as e:  # noqa: BLE001
        ctx.disagree(f'compile raised {type(e).__name__}', dict(wit, exception=repr(e)[:200]))
        return
    if 'SPLIT' in c.flags:
        ctx.count('split_cases')
    if 'BRACE' in c.flags:
        ctx.count('brace_cases')
    results = []
    for n in names:
        exp = any(x.match(n) for x in inc_m) and not any(x.match(n) for x in exc_m)
        got = m.match(n)
        results.append(got)
        ctx.evals()
        ctx.count('decomposition_checks')
        if got is not exp:
            ctx.disagree('composite differs from the boolean combination of its single patterns (' +
                         ('exclude=' if c.exclude is not None else 'inline' if c.exc else 'no exclusion') +
                         (', SPLIT' if 'SPLIT' in c.flags else '') + (', BRACE' if 'BRACE' in c.flags else '') +
                         (', NEGATEALL' if 'NEGATEALL' in c.flags else '') + ')',
                         dict(wit, name=n, expected=exp, observed=got,
                              inclusion_answers=[x.match(n) for x in inc_m], exclusion_answers=[x.match(n) for x in exc_m]))
            break
    # entry points agree
    want = [n for n, g in zip(names, results) if g]
    try:
        a = flt(names, c.patterns, flags=flags, **kw)
        b = m.filter(names)
        s = [n for n in names[:25] if one(n, c.patterns, flags=flags, **kw)]
    except Exception as e:  # noqa: BLE001
        a = b = s = f'raised {type(e).__name__}'
    ctx.evals(3)
    if a != want or b != want or s != [n for n in names[:25] if n in want]:
        ctx.disagree('entry points disagree on a composite', dict(wit, names=names[:40], compiled=want[:40],
                                                                   filter=a[:40] if isinstance(a, list) else a))
    # order and repetition never matter
    if len(c.patterns) > 1 or c.exclude:
        pats = list(c.patterns)
        rng.shuffle(pats)
        pats = pats + pats[:1]
        kw2 = {}
        if c.exclude is not None:
            ex = list(c.exclude)
            rng.shuffle(ex)
            kw2 = {'exclude': ex + ex[:1]}
        try:
            m2 = mod.compile(pats, flags=flags, **kw2)
            res2 = [m2.match(n) for n in names]
        except Exception as e:  # noqa: BLE001
            res2 = f'raised {type(e).__name__}'
        ctx.count('permutation_checks')
        ctx.evals(len(names))
        if res2 != results:
            ctx.disagree('order / repetition of patterns changes the result', dict(wit, permuted=pats, permuted_exclude=kw2.get('exclude')))
    # the three spellings of an exclusion agree
    if c.exc:
        inc_texts = [t for t in c.patterns if c.exclude is not None] or None
        if c.exclude is not None:
            base = flags_of(f for f in c.flags if f not in ('NEGATE', 'MINUSNEGATE'))
            alts = []
            ex_singles = [t for t, _ in c.exc]
            alts.append((list(c.patterns) + ['!' + t for t in ex_singles], base | mod.NEGATE, 'inline !'))
            alts.append((list(c.patterns) + ['-' + t for t in ex_singles], base | mod.NEGATE | mod.MINUSNEGATE, 'inline -'))
            # an inclusion that starts with `-` would read as an exclusion under MINUSNEGATE: the generator escapes it
            for pats, fl, what in alts:
                try:
                    m3 = mod.compile(pats, flags=fl)
                    res3 = [m3.match(n) for n in names]
                except Exception as e:  # noqa: BLE001
                    res3 = f'raised {type(e).__name__}'
                ctx.count('exclusion_spelling_checks')
                ctx.evals(len(names))
                if res3 != results:
                    ctx.disagree(f'exclude= and {what} disagree', dict(wit, inline_patterns=pats))
        _ = inc_texts
    # translate(): one regex per distinct expanded pattern
    try:
        tr = mod.translate(c.patterns, flags=flags, **kw)
        n_regex = len(tr[0]) + len(tr[1])
    except Exception as e:  # noqa: BLE001
        n_regex = f'raised {type(e).__name__}'
    expect = c.inline_count + (len(set(t for t, _ in c.exc)) if c.exclude is not None else 0)
    has_pos = bool(c.inc)
    if not c.inc and c.exc and 'NEGATEALL' in c.flags:
        expect += 1
        has_pos = True
    if 'NODIR' in c.flags and has_pos:
        expect += 1
    ctx.count('translate_length_checks')
    ctx.evals()
    if n_regex != expect:
        ctx.disagree('translate() does not return one regex per distinct expanded pattern',
                     dict(wit, regexes=n_regex, expected=expect))
    # the same law when the names are looked up on a real tree (REALPATH): directories named with and without their separator,
    # a symlinked directory, hidden entries, a name that does not exist
    if c.path_mode and REAL_ROOT[0]:
        root = REAL_ROOT[0]
        try:
            mr = G.compile(c.patterns, flags=flags | G.REALPATH, **kw)
            inc_r = [G.compile(t, flags=sflags | G.REALPATH) for t, _ in c.inc]
            # exclusion patterns are applied to the path text: their `**` is not subject to the symlink rule of C06 (FOLLOW)
            exc_r = [G.compile(t, flags=eflags | G.REALPATH | G.FOLLOW) for t, _ in c.exc]
            if not c.inc and c.exc and 'NEGATEALL' in c.flags:
                inc_r = [G.compile('**', flags=sflags | G.GLOBSTAR | G.REALPATH)]
            for n in REAL_NAMES:
                exp = any(x.match(n, root_dir=root) for x in inc_r) and not any(x.match(n, root_dir=root) for x in exc_r)
                got = mr.match(n, root_dir=root)
                ctx.evals()
                ctx.count('realpath_decomposition_checks')
                if got is not exp:
                    ctx.disagree('REALPATH: composite differs from the boolean combination of its single patterns on a real tree',
                                 dict(wit, name=n, expected=exp, observed=got, mode='realpath',
                                      inclusion_answers=[x.match(n, root_dir=root) for x in inc_r],
                                      exclusion_answers=[x.match(n, root_dir=root) for x in exc_r]))
                    break
            want_r = [n for n in REAL_NAMES if mr.match(n, root_dir=root)]
            if G.globfilter(REAL_NAMES, c.patterns, flags=flags | G.REALPATH, root_dir=root, **kw) != want_r:
                ctx.disagree('REALPATH: globfilter disagrees with the compiled matcher on a composite', dict(wit, mode='realpath'))
        except Exception as e:  # noqa: BLE001
            ctx.disagree(f'REALPATH composite raised {type(e).__name__}', dict(wit, exception=repr(e)[:200], mode='realpath'))
    # reference model on the singles (sample)
    if k % 3 == 0:
        model_check(ctx, c, names, results)
    if len(c.inc) >= 2 or c.exc:
        ctx.mark_nontrivial(repr(wit))
    if k % 60 == 1:
        ctx.sample(dict(wit, names_tried=len(names)))


def model_check(ctx, c, names, results):
    dot = 'DOTMATCH' in c.flags
    fn = tuple(c.flags)
    if c.path_mode:
        ps = pathspec(tuple('DOTGLOB' if f == 'DOTMATCH' else f for f in fn))
        psd = pathspec(tuple('DOTGLOB' if f == 'DOTMATCH' else f for f in fn if f != 'NODIR') + ('DOTGLOB',))
        ref_i = lambda ast, n: R.path_match3(ast, n, ps)  # noqa: E731
        ref_e = lambda ast, n: R.path_match3(ast, n, psd)  # noqa: E731
    else:
        ref_i = lambda ast, n: R.seg_match3(ast, n, dot)  # noqa: E731
        ref_e = lambda ast, n: R.seg_match3(ast, n, True)  # noqa: E731
    for n, got in zip(names, results):
        if '\n' in n or any(seg.startswith('.') for seg in n.split('/')):
            continue   # hidden and special segments are C03's domain
        incs = [ref_i(ast, n) for _t, ast in c.inc]
        excs = [ref_e(ast, n) for _t, ast in c.exc]
        if not c.inc:
            if not (c.exc and 'NEGATEALL' in c.flags):
                exp_inc = False
            else:
                if c.path_mode:
                    psg = pathspec(tuple('DOTGLOB' if f == 'DOTMATCH' else f for f in fn) + ('GLOBSTAR',))
                    exp_inc = R.path_match3((('gstar',),), n, psg)
                else:
                    exp_inc = R.seg_match3((('star',),), n, dot)
        elif any(x is True for x in incs):
            exp_inc = True
        elif all(x is False for x in incs):
            exp_inc = False
        else:
            exp_inc = None
        if any(x is True for x in excs):
            exp = False
        elif exp_inc is False:
            exp = False
        elif exp_inc is True and all(x is False for x in excs):
            exp = True
        else:
            continue
        ctx.evals()
        ctx.count('model_checks')
        if got is not exp:
            # attribute through the single that decides
            fid = None
            for (_t, ast), r in list(zip(c.inc, incs)) + list(zip(c.exc, excs)):
                if c.path_mode:
                    f = findings.classify_path(ast, n, ps if (_t, ast) in c.inc else psd, not r if r is not None else got)
                else:
                    f = findings.classify_segment(ast, n, dot, False, not r if r is not None else got)
                if f:
                    fid = f
                    break
            ctx.disagree(f'composite differs from the reference model: expected {exp} got {got}',
                         dict(c.describe(), name=n, expected=exp, observed=got), fid)
            break


REAL_ROOT = [None]
REAL_TREE = [('a', 'f', None), ('b', 'd', None), ('b/a', 'f', None), ('b/c', 'd', None), ('b/c/a', 'f', None), ('.a', 'f', None),
             ('.b', 'd', None), ('.b/a', 'f', None), ('ab', 'l', 'b'), ('c.a', 'f', None), ('ba', 'd', None), ('b/.a', 'f', None)]
REAL_NAMES = [p + s for p, _k, _t in REAL_TREE for s in ('', '/')] + ['zz', 'b/zz', 'ab/a', 'ab/c/', 'ab/c', 'b//a', './a', 'b/../a']


def degenerate_lists(ctx):
    """No inclusion pattern at all (an empty list or tuple, a list of empty texts): nothing matches, with or without `exclude=`,
    whatever NEGATE / NEGATEALL say (an `exclude=` argument switches both off; NEGATEALL needs an inline exclusion to act on)."""
    names = ['a', 'b', '.a', 'a/b', 'ab', ' ', 'a\n']
    idx = 0
    for mod in (F, G):
        for fl in ((), ('NEGATE',), ('NEGATEALL',), ('NEGATE', 'NEGATEALL'), ('NEGATE', 'NEGATEALL', 'MINUSNEGATE'), ('NEGATE', 'NEGATEALL', 'DOTMATCH'),
                   ('NEGATEALL', 'SPLIT', 'BRACE'), ('NEGATE', 'NEGATEALL', 'EXTMATCH', 'SPLIT')):
            for incl in ([], (), [''], ('', '')):
                for ex in (None, 'b', ['b'], ('b', 'zz*'), '', [], '!b'):
                    idx += 1
                    if not ctx.mine(idx):
                        continue
                    flags = flags_of(fl)
                    kw = {} if ex is None else {'exclude': ex}
                    for as_bytes in (False, True):
                        if as_bytes and ex is not None and not ex:
                            continue
                        c = (lambda x: x.encode() if isinstance(x, str) else type(x)(y.encode() for y in x)) if as_bytes else (lambda x: x)
                        kwb = {k_: c(v_) for k_, v_ in kw.items()}
                        with ctx.case(label=('degenerate-list', mod.__name__, fl, repr(incl), repr(ex), as_bytes)):
                            try:
                                m = mod.compile(c(incl) if incl else incl, flags=flags, **kwb)
                                got = [n for n in names if m.match(c(n))]
                                flt = (mod.filter if mod is F else mod.globfilter)([c(n) for n in names], c(incl) if incl else incl, flags=flags, **kwb)
                                one = [n for n in names if (mod.fnmatch if mod is F else mod.globmatch)(c(n), c(incl) if incl else incl, flags=flags, **kwb)]
                                tr_ = mod.translate(c(incl) if incl else incl, flags=flags, **kwb)
                            except Exception as e:  # noqa: BLE001
                                ctx.disagree(f'a call without inclusion patterns raised {type(e).__name__}',
                                             {'module': mod.__name__, 'patterns': repr(incl), 'exclude': repr(ex), 'flags': list(fl), 'bytes': as_bytes})
                                continue
                            ctx.evals(3 * len(names))
                            ctx.count('degenerate_list_checks')
                            import re as _re
                            tin = [r_ for r_ in tr_[0] if any(_re.compile(r_).fullmatch(c(n)) for n in names)]
                            if got or flt or one or tin:
                                ctx.disagree('a call without any inclusion pattern matches something (or translate returns an inclusion regex)',
                                             {'module': mod.__name__, 'patterns': repr(incl), 'exclude': repr(ex), 'flags': list(fl), 'bytes': as_bytes,
                                              'compiled_matches': got, 'filter': [repr(x) for x in flt], 'one_shot': one, 'translate_inclusions': [repr(x) for x in tr_[0]]})


def polarity_by_expansion(ctx):
    """Whether a text is an exclusion is decided per expanded piece, not per written pattern: a brace set whose members all carry
    the marker (`{!a,!b}`) is two exclusions and no inclusion (so NEGATEALL supplies the implicit inclusion), and a SPLIT text that
    opens with the marker but has an unmarked piece (`!a|b`) has an inclusion (so NEGATEALL supplies none)."""
    from ..composite import Composite, L
    star = (('star',),)
    ast = {'a': L('a'), 'b': L('b'), 'c': L('c'), 'x': L('x'), 'ab': L('ab'), 'a*': L('a') + star, 'c*': L('c') + star,
           '01': L('01'), '04': L('04'), '07': L('07')}
    templates = [
        (['{!a,!b}'], {'BRACE'}, [], ['a', 'b']),
        (['{!a,b}'], {'BRACE'}, ['b'], ['a']),
        (['!a|b'], {'SPLIT'}, ['b'], ['a']),
        (['!a|!b'], {'SPLIT'}, [], ['a', 'b']),
        (['a*|!ab'], {'SPLIT'}, ['a*'], ['ab']),
        (['!{a,b}|c*'], {'SPLIT', 'BRACE'}, ['c*'], ['a', 'b']),
        (['{!a*,!b}|!c'], {'SPLIT', 'BRACE'}, [], ['a*', 'b', 'c']),
        (['!0{1..7..3}'], {'BRACE'}, [], ['01', '04', '07']),
        (['{!0{1..7..3},!x}'], {'BRACE'}, [], ['01', '04', '07', 'x']),
        (['{!0{1..7..3},!x}|c*'], {'BRACE', 'SPLIT'}, ['c*'], ['01', '04', '07', 'x']),
        (['{!a,!b}', '!c'], {'BRACE'}, [], ['a', 'b', 'c']),
        (['!a|b', '!c*'], {'SPLIT'}, ['b'], ['a', 'c*']),
        (['{!a,!b}', 'c*'], {'BRACE'}, ['c*'], ['a', 'b']),
    ]
    idx = 0
    for path_mode in (False, True):
        for base in (('NEGATE',), ('NEGATE', 'NEGATEALL'), ('NEGATE', 'NEGATEALL', 'DOTMATCH'), ('NEGATE', 'NEGATEALL', 'MINUSNEGATE'),
                     ('NEGATE', 'MINUSNEGATE')):
            for pats, need, inc, exc in templates:
                idx += 1
                if not ctx.mine(idx):
                    continue
                mark = '-' if 'MINUSNEGATE' in base else '!'
                c = Composite()
                c.patterns = [t.replace('!', mark) for t in pats]
                c.flags = set(base) | set(need)
                if path_mode and idx % 3 == 0:
                    c.flags.add('GLOBSTAR')
                c.inc = [(t, ast[t]) for t in inc]
                c.exc = [(t, ast[t]) for t in exc]
                c.inline_count = len(set(inc)) + len(set(exc))
                c.path_mode = path_mode
                with ctx.case(label=('polarity-by-expansion', c.describe())):
                    ctx.count('polarity_by_expansion_cases')
                    check_composite(ctx, c, ctx.rng_for('pol', idx), idx)


def run(ctx):
    degenerate_lists(ctx)
    polarity_by_expansion(ctx)
    from .. import tree as T
    quick = ctx.quick
    k = 0
    limit = 260 if quick else 10 ** 9
    with T.Tree(REAL_TREE, 'c07-') as tr:
        REAL_ROOT[0] = tr.root
        try:
            while k < limit and not ctx.out_of_time():
                k += 1
                rng = ctx.rng_for('comp', ctx.shard, k)
                c = rand_composite(rng, path_mode=bool(k % 2))
                with ctx.case(label=c.describe()):
                    check_composite(ctx, c, rng, k)
        finally:
            REAL_ROOT[0] = None
    ctx.count('composites', k)


def replay(ctx, w):
    import random
    from ..composite import Composite
    # the witness stores texts; ASTs are not needed for the decomposition law
    c = Composite()
    c.patterns = list(w['patterns'])
    c.exclude = list(w['exclude']) if w.get('exclude') is not None else None
    c.flags = set(w['flags'])
    c.inc = [(t, (('lit', 'a'),)) for t in w['inclusion_singles']]
    c.exc = [(t, (('lit', 'a'),)) for t in w['exclusion_singles']]
    c.path_mode = any(f in c.flags for f in ('GLOBSTAR', 'NODIR')) or any('/' in t for t in c.patterns)
    mark = '-' if 'MINUSNEGATE' in c.flags else '!'
    inline = [t for t, _ in c.inc] + ([mark + t for t, _ in c.exc] if c.exclude is None else [])
    c.inline_count = len(set(inline))
    rng = random.Random(0)
    if w.get('mode') == 'realpath':
        from .. import tree as T
        c.path_mode = True
        with T.Tree(REAL_TREE, 'c07r-') as tr:
            REAL_ROOT[0] = tr.root
            try:
                check_composite(ctx, c, rng, 1)
            finally:
                REAL_ROOT[0] = None
        return ctx.violations or None
    names = [w['name']] if 'name' in w else None
    if names:
        global names_for
        orig = names_for
        names_for = lambda *_a: names + ['a', 'b', '.a', 'ab']  # noqa: E731
        try:
            check_composite(ctx, c, rng, 1)
        finally:
            names_for = orig
    else:
        check_composite(ctx, c, rng, 1)
    return ctx.violations or None
