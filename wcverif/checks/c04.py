"""C04 - globmatch with REALPATH matches exactly what glob globs (DESIGN.md section 5, C04)."""
import os

from .. import gen, refmodel as R, tree as T
from ..common import G, flags_of
from .c16 import first_assignment_shape

SPEC = {
    'rule': ('on generated trees (files, directories, hidden entries, symlinks to files / directories, dangling and cyclic links) '
             'patterns aimed at the tree and pattern lists (with NEGATE / exclude=) are run through the real glob.glob and, for '
             'every candidate (every entry of the tree by its lexical path, paths through symlinked directories to depth 4, '
             'everything glob returned, a non-existent sibling of entries, absolute spellings), through glob.globmatch / globfilter '
             'with REALPATH, the same flags and the same root (root_dir, cwd, dir_fd) under sampled subsets of {GLOBSTAR, '
             'GLOBSTARLONG, FOLLOW, DOTGLOB, EXTGLOB, MATCHBASE, NODIR, IGNORECASE}; the two sets must be equal (ignoring trailing '
             'separators, modulo case under IGNORECASE); a non-existent path never matches; a relative pattern never matches an '
             'absolute path; a directory-demanding pattern matches a path written without separator exactly when it is a '
             'directory; globfilter on a shuffled list must agree with single globmatch calls. A case is one (tree, pattern, flag '
             'set, root mode); it is non-trivial when glob returned at least one path and rejected at least one candidate.'),
    'bounds': {'quick': {'trees_per_shard': 120, 'patterns_per_tree': 10}, 'thorough': {'trees': 'until the time budget', 'patterns_per_tree': 24}},
    'floor': {'quick': 30000, 'thorough': 300000},
    'required_counters': ['set_comparisons', 'candidates_judged', 'nonexistent_checks', 'absolute_vs_relative_checks',
                          'directory_demand_checks', 'filter_vs_single_checks', 'dir_fd_cases', 'cwd_cases', 'paths_through_links'],
    'budget': {'quick': 50, 'thorough': 540},
    'shard_timeout': {'quick': 400, 'thorough': 1500},
    'assumptions': ['under FOLLOW / `***` only trees without directory cycles are used',
                    '`.` and `..` are not candidates (they are not entries of the tree)'],
}

OPT = ['GLOBSTAR', 'GLOBSTARLONG', 'FOLLOW', 'DOTGLOB', 'MATCHBASE', 'NODIR', 'IGNORECASE']


def classify(toks, fn, cand, root, in_glob, matched, multi):
    """Mechanism predicates of the known findings of this property."""
    segs = R.split_segments(toks)
    ps = R.PathSpec(globstar='GLOBSTAR' in fn or 'GLOBSTARLONG' in fn, globstarlong='GLOBSTARLONG' in fn)
    full = os.path.join(root, cand)
    if matched and not in_glob:
        if cand.endswith('\n') and (any(R.seg_is_gstar(sg, ps) for sg in segs[1]) or ('MATCHBASE' in fn and not R.has_sep(toks))) and \
                G.globmatch('\n', gen.ser(segs[1][-1]) if segs[1] else '', flags=flags_of(f for f in fn if f not in ('MATCHBASE', 'NODIR'))):
            # the `$` of the divider behind a recursive segment also matches in front of a final line feed: the `**` takes the name, the last
            # segment pattern the line feed alone
            return 'KF-DOLLAR-NEWLINE'
        if segs[2] and segs[1] and R.seg_is_gstar(segs[1][-1], ps) and not os.path.isdir(full):
            return 'KF-REALPATH-GLOBSTAR-SLASH-FILE'
        if any(R.nullable(R.norm_seg(sg)) for sg in segs[1] if not R.seg_is_gstar(sg, ps)):
            # only inside the zone itself: the pure-text model must call this path DON'T CARE (a nullable segment
            # pattern standing against no segment); a path it calls MUST or MUST NOT is not explained by this finding
            from .c05 import model_spec
            txt = cand + ('/' if os.path.isdir(full) and not cand.endswith('/') else '')
            try:
                if R.path_match3(toks, txt, model_spec([f for f in fn if f != 'NODIR'] + ['SCANDOTDIR'])) is None:
                    return 'KF-NULLABLE-SEGMENT-GLOB-VS-MATCH'
            except RecursionError:
                pass
    if in_glob and not matched:
        cwd = os.getcwd()
        os.chdir(root)
        try:
            if first_assignment_shape(toks, fn, T.norm_result(cand), implicit='MATCHBASE' in fn and not R.has_sep(toks)):
                return 'KF-REALPATH-FIRST-ASSIGNMENT'
        finally:
            os.chdir(cwd)
    return None


def call_in_mode(mode, root, fn):
    """Run fn(kwargs) with the root given as root_dir / cwd / dir_fd."""
    if mode == 'root_dir':
        return fn({'root_dir': root})
    if mode == 'cwd':
        cwd = os.getcwd()
        os.chdir(root)
        try:
            return fn({})
        finally:
            os.chdir(cwd)
    fd = os.open(root, os.O_RDONLY | os.O_DIRECTORY)
    try:
        return fn({'dir_fd': fd})
    finally:
        os.close(fd)


def check_pattern(ctx, tr, rng, k, j, forced=None):
    ents = tr.lexical()
    root = tr.root
    if forced:
        toks, text, fn, pats, kw, mode = forced
    else:
        toks = None
        aimed = rng.random() < 0.15
        if aimed:
            from .c06 import through_link_pattern
            toks = through_link_pattern(rng, tr)
        if not toks:
            aimed = False
            toks = gen.tree_pattern(rng, ents, ext=True, globstar=True, maxseg=4)
        if not toks or gen.ambiguous_adjacency(toks) or toks[0][0] == 'sep':
            return
        text = gen.ser(toks)
        fn = ['EXTGLOB'] + [f for f in OPT if rng.random() < 0.27] + (['GLOBSTAR'] if aimed else [])
        if tr.has_dir_cycle():
            fn = [f for f in fn if f not in ('FOLLOW', 'GLOBSTARLONG')]
        pats, kw = text, {}
        toks = [toks]
        r = rng.random()
        if r < 0.12:
            pats = [text, '!' + gen.ser(gen.tree_pattern(rng, ents, maxseg=2))]
            fn.append('NEGATE')
        elif r < 0.24:
            kw = {'exclude': gen.ser(gen.tree_pattern(rng, ents, maxseg=2))}
        elif r < 0.36 and r >= 0.3:
            # exclusions alone: NEGATEALL supplies an implicit `**` (an ordinary one: it does not go through links either)
            t2 = gen.ser(gen.tree_pattern(rng, ents, maxseg=2))
            if t2 and not t2.startswith('('):
                pats = ['!' + t2] if rng.random() < 0.7 else ['!' + t2, '!zz-none*']
                fn += ['NEGATE', 'NEGATEALL']
                toks = [(('gstar',),)]
                text = '**'
        elif r < 0.3:
            t2 = gen.tree_pattern(rng, ents, maxseg=3)
            if t2 and t2[0][0] != 'sep' and not gen.ambiguous_adjacency(t2):
                pats = [text, gen.ser(t2)]
                toks.append(t2)
        mode = rng.choice(['root_dir', 'root_dir', 'cwd', 'dir_fd'])
    multi = not isinstance(pats, str) or bool(kw)
    flags = flags_of(fn)
    icase = 'IGNORECASE' in fn
    wit = {'tree': tr.spec, 'ast': toks, 'text': text, 'pattern': pats, 'kw': kw, 'flags': fn, 'root_mode': mode}
    if mode == 'dir_fd':
        ctx.count('dir_fd_cases')
    elif mode == 'cwd':
        ctx.count('cwd_cases')
    try:
        res = call_in_mode(mode, root, lambda kws: G.glob(pats, flags=flags, **kw, **kws))
    except Exception as e:  # noqa: BLE001
        ctx.disagree(f'glob raised {type(e).__name__}', dict(wit, exception=repr(e)[:200]))
        return
    cands = list(tr.candidates(5))
    if len(cands) > 90:
        head, tail = cands[:40], cands[40:]
        rng.shuffle(tail)
        cands = head + tail[:50]
    seen = set(cands)
    for p in res:
        q = T.norm_result(p)
        if q not in seen and q not in ('.', '..') and not q.endswith('/.') and not q.endswith('/..'):
            seen.add(q)
            cands.append(q)
    missing = [c + 'zz' for c in cands[:6]] + ['zz/a', 'nonexistent']
    missing = [m for m in missing if not os.path.lexists(os.path.join(root, m))]
    order = list(cands) + missing
    rng.shuffle(order)
    try:
        filt = call_in_mode(mode, root, lambda kws: G.globfilter(order, pats, flags=flags | G.REALPATH, **kw, **kws))
    except Exception as e:  # noqa: BLE001
        ctx.disagree(f'globfilter(REALPATH) raised {type(e).__name__}', dict(wit, exception=repr(e)[:200]))
        return
    accepted = set(filt)
    # one globmatch per element (no shared per-call memo) agrees with the filter
    sample = order[:: max(1, len(order) // 12)]
    singles = call_in_mode(mode, root, lambda kws: [c for c in sample if G.globmatch(c, pats, flags=flags | G.REALPATH, **kw, **kws)])
    ctx.evals(len(sample))
    ctx.count('filter_vs_single_checks', len(sample))
    if singles != [c for c in sample if c in accepted]:
        ctx.disagree('globfilter(REALPATH) on a list differs from single globmatch calls', dict(wit, sample=sample, filter=[c for c in sample if c in accepted], singles=singles))

    def key(p):
        p = T.norm_result(p)
        return p.lower() if icase else p

    gset = {key(p) for p in res if T.norm_result(p) in seen}
    mset = {key(c) for c in cands if c in accepted}
    ctx.evals(len(cands))
    ctx.count('set_comparisons')
    ctx.count('candidates_judged', len(cands))
    ctx.count('paths_through_links', sum(1 for c in cands if any(os.path.islink(os.path.join(root, *c.split('/')[:i])) for i in range(1, len(c.split('/'))))))
    if gset != mset:
        for kx in sorted(gset ^ mset):
            in_glob = kx in gset
            twins = [c for c in cands if key(c) == kx]
            returned = {T.norm_result(p) for p in res}
            if in_glob:
                # the spelling glob actually returned (under IGNORECASE several entries may fold to the same key)
                cand = next((c for c in twins if c in returned and c not in accepted), None)
                if cand is None:
                    continue    # the returned spelling is accepted; only a case twin of it is not
            else:
                cand = next((c for c in twins if c in accepted and c not in returned), None)
                if cand is None:
                    continue
            fid = None
            for tk in toks:
                fid = fid or classify(tk, fn, cand, root, in_glob, not in_glob, multi)
            if icase and not in_glob:
                # a case twin of a returned path that the duplicate filter merged away
                pass
            ctx.disagree('glob and globmatch(REALPATH) disagree: ' + ('returned by glob, rejected by globmatch' if in_glob else
                                                                       'accepted by globmatch, not returned by glob'),
                         dict(wit, candidate=cand, glob=res[:20]), fid)
            break
    # non-existent paths never match
    for m in missing:
        ctx.count('nonexistent_checks')
        if m in accepted:
            ctx.disagree('globmatch(REALPATH) accepts a path that does not exist', dict(wit, candidate=m))
            break
    # a relative pattern never matches an absolute path
    if isinstance(pats, str) and not text.startswith('/'):
        for c in cands[:6]:
            ctx.count('absolute_vs_relative_checks')
            ctx.evals()
            if call_in_mode(mode, root, lambda kws: G.globmatch(os.path.join(root, c), pats, flags=flags | G.REALPATH, **kw, **kws)):
                ctx.disagree('a relative pattern matches an absolute path under REALPATH', dict(wit, candidate=os.path.join(root, c)))
                break
    # a pattern that demands a directory matches a path written without separator exactly when it is a directory
    if toks and isinstance(pats, str) and not kw and text.endswith('/') and 'NODIR' not in fn and 'MATCHBASE' not in fn:
        ps = R.PathSpec(globstar='GLOBSTAR' in fn or 'GLOBSTARLONG' in fn, globstarlong='GLOBSTARLONG' in fn)
        segs = R.split_segments(toks[0])
        if segs[1] and not R.seg_is_gstar(segs[1][-1], ps) and not any(R.nullable(R.norm_seg(sg)) for sg in segs[1]):
            base_pat = text.rstrip('/')
            for c in cands[:20]:
                if c.endswith('/'):
                    continue
                without = call_in_mode(mode, root, lambda kws: G.globmatch(c, base_pat, flags=flags | G.REALPATH, **kws))
                if not without:
                    continue
                ctx.count('directory_demand_checks')
                ctx.evals()
                want = os.path.isdir(os.path.join(root, c))
                got = c in accepted
                if got is not want:
                    ctx.disagree('a directory-demanding pattern does not follow the file system for a path written without separator',
                                 dict(wit, candidate=c, is_dir=want, matched=got))
                    break
    if res and len(accepted) < len(order):
        ctx.mark_nontrivial((ctx.shard, k, j))
    if j == 0 and k % 10 == 0:
        ctx.sample({'tree': tr.spec, 'pattern': pats, 'kw': kw, 'flags': fn, 'root_mode': mode, 'glob': res[:6], 'candidates': len(order),
                    'accepted_by_globmatch': sorted(accepted)[:6]})


# names made of pattern punctuation: glob's own splitter (which decides where a segment ends and whether it is "magic") and the
# matcher's parser are two implementations that must agree on where brackets and extended groups end
PUNCT_TREE = [('abc]', 'd', None), ('abc]/d)', 'f', None), ('[a', 'd', None), ('[a/b]', 'f', None), ('a', 'd', None), ('a/b', 'f', None),
              ('a)b', 'f', None), ('a]b', 'f', None), ('x(y', 'd', None), ('x(y/z', 'f', None), ('ab', 'd', None), ('ab/c]', 'f', None),
              ('p|q', 'f', None), ('a[b', 'f', None), ('@(ab)c]', 'd', None), ('@(ab)c]/d)', 'f', None), ('a\\', 'd', None), ('a\\/b', 'f', None),
              ('@(x', 'd', None), ('@(x/ab', 'f', None), ('@(x/y', 'f', None)]
PUNCT_PATTERNS = ['@(ab)c]/d)', '[a/b]', '@(a/b)', '@(a[)]b)', '@(a[/]b)', 'a*(a|b]c)', '@(ab)c]/@(d\\))', 'x(y/z', '@(x\\(y)/z', '@(x(y)/z',
                  '?(a)bc]/*', '!(a)c]/d)', '@(a|ab)/*]', '@(ab)/c]', '[[]a/b[]]', 'a[[]b', '@(a])b', '@(a]b)', '@(p|q)', '@(p\\|q)', 'p|q',
                  '@(a[b)', '+(a[)b]|a)b)', '@(ab)c]/d[)]', '@(ab)c]/*', '*]/*)', '*/*]', '[[]a/*', '@(ab|x)c]/d)', '@(@(ab)c])/d)',
                  '@(a[b)c]/d)', '*(ab)c]/d)', '+(ab)c]/[d])', '@(ab)c[]]/d)', '[@](ab)c]/d)', '\\@(ab)c]/d)', 'a\\\\/b', '@(a\\\\)/b',
                  '[a\\\\]/b', 'a[\\\\]/b', '@(a[\\\\])/b', '**/d)', '**/*]', '@(**)/d)', 'ab{c],/c]}', '{abc]/d),x}', '@(ab{c],})/d)',
                  # a group that is never closed is plain text: the separator inside it still separates, also in front of a bracket
                  '@(x/[a]b', '@(x/y', '@(x/a[b]', '*(x/[a]b', '@(x/[a]*', '@(x/[!z]b', '?(x/[a]b', '@(x/@(a)[b]', '@(x/[a/b', '@(x/[[:alpha:]]b']
PUNCT_FLAGSETS = [('EXTGLOB', 'GLOBSTAR'), ('EXTGLOB',), (), ('EXTGLOB', 'GLOBSTAR', 'DOTGLOB', 'BRACE'), ('EXTGLOB', 'BRACE'), ('EXTGLOB', 'NODIR'),
                  ('EXTGLOB', 'GLOBSTAR', 'MATCHBASE'), ('EXTGLOB', 'IGNORECASE')]


def punctuation_scenarios(ctx):
    idx, todo = 0, []
    for text in PUNCT_PATTERNS:
        for fn in PUNCT_FLAGSETS:
            idx += 1
            if ctx.mine(idx):
                todo.append((text, fn))
    if not todo:
        return
    with T.Tree(PUNCT_TREE, 'c04p-') as tr:
        for text, fn in todo:
            with ctx.case(timeout=20, label=('punct', text, fn)):
                check_pattern(ctx, tr, ctx.rng_for('punct', text, fn), 0, 0, forced=([], text, list(fn), text, {}, 'root_dir'))
                ctx.count('punctuation_scenario_cases')


# symlinked directories two and three levels below the point where a recursive segment starts, and patterns that mix `***` and `**`
DEEP_LINK_TREE = [('d', 'd', None), ('d/x', 'd', None), ('d/x/ld', 'l', '../../t'), ('d/x/f', 'f', None), ('t', 'd', None), ('t/f', 'f', None),
                  ('t/sub', 'd', None), ('t/sub/f', 'f', None), ('t/sub/g', 'f', None), ('e', 'd', None), ('e/x', 'd', None), ('e/x/y', 'd', None),
                  ('e/x/y/ld2', 'l', '../../../t'), ('e/x/y/f', 'f', None), ('top', 'l', 't/sub')]


def deep_link_scenarios(ctx):
    from .c06 import FIXED_TREES
    GS, GL_ = (('gstar',),), (('gstarlong',),)
    lit = lambda x: tuple(('lit', c) for c in x)  # noqa: E731
    ST = (('star',),)
    shapes = [[GL_], [GL_, lit('f')], [lit('d'), GL_, lit('f')], [GL_, lit('sub'), ST], [GS, lit('f')], [GS], [lit('d'), GS, lit('f')],
              [GL_, lit('x'), GS, lit('f')], [lit('e'), GL_, lit('f')], [GL_, lit('x'), GL_, lit('f')], [GS, lit('x'), GL_, lit('f')],
              [GL_, ST, GS, lit('g')], [lit('e'), GL_, lit('sub'), GS], [GL_, lit('ld'), GS], [GS, lit('ld'), ST], [ST, GL_, lit('g')],
              [GL_, lit('y'), GS, lit('f')], [lit('e'), GS, lit('ld2'), GL_, lit('g')], [lit('top'), GS], [GL_, lit('m'), GS, lit('z')],
              [GL_, lit('lnk'), GS, lit('z')], [GS, lit('m'), GL_, lit('z')],
              # adjacent recursive segments are one segment, but the text still holds a separator (MATCHBASE does not apply)
              [GS, GS], [GS, GS, lit('f')], [GL_, GS], [GS, GL_], [GS, GS, GS], [lit('f')], [ST]]
    fsets = [('GLOBSTARLONG',), ('GLOBSTARLONG', 'FOLLOW'), ('GLOBSTAR',), ('GLOBSTAR', 'FOLLOW'), ('GLOBSTARLONG', 'DOTGLOB', 'NODIR'),
             ('GLOBSTARLONG', 'FOLLOW', 'MATCHBASE'), ('GLOBSTAR', 'MATCHBASE')]
    idx = 0
    for ti, spec in enumerate([DEEP_LINK_TREE] + list(FIXED_TREES)):
        todo = []
        for segs in shapes:
            for fn in fsets:
                for mode in ('root_dir', 'dir_fd'):
                    idx += 1
                    if ctx.mine(idx):
                        todo.append((segs, fn, mode))
        if not todo:
            continue
        with T.Tree(spec, 'c04d-') as tr:
            for segs, fn, mode in todo:
                toks = gen.join_segments(segs, None, lead=False, trail=False)
                text = gen.ser(toks)
                with ctx.case(timeout=20, label=('deep-link', ti, text, fn, mode)):
                    check_pattern(ctx, tr, ctx.rng_for('dl', ti, text, fn), 0, 0, forced=([toks], text, ['EXTGLOB'] + list(fn), text, {}, mode))
                    ctx.count('deep_link_scenario_cases')


def odd_name_scenarios(ctx):
    """Names that end in / hold a line feed, a space, a bracket, a backslash: glob and globmatch(REALPATH) judge the whole name."""
    from .c05 import ODD_TREE
    lit = lambda x: tuple(('lit', c) for c in x)  # noqa: E731
    ST, Q, GS = (('star',),), (('q',),), (('gstar',),)
    one = lambda c: (('set', False, (('c', c),), '!'),)  # noqa: E731
    shapes = [[lit('ab') + one('c')], [lit('ab') + Q], [lit('a')], [one('a')], [Q], [ST + lit('.txt')], [lit('x.txt')], [GS, lit('m.py')], [lit('sub'), ST + lit('.p') + one('y')],
              [lit('b')], [GS, lit('f')], [lit('su') + one('b'), lit('f')], [lit('sub'), lit('f')], [lit('x') + Q], [lit('b') + Q], [GS, lit('n.py')], [lit('abc')], [ST]]
    fsets = [('GLOBSTAR',), ('GLOBSTAR', 'MATCHBASE'), ('GLOBSTAR', 'DOTGLOB', 'NODIR'), ('GLOBSTAR', 'IGNORECASE')]
    idx, todo = 0, []
    for segs in shapes:
        for fn in fsets:
            for mode in ('root_dir', 'cwd'):
                idx += 1
                if ctx.mine(idx):
                    todo.append((segs, fn, mode))
    if not todo:
        return
    with T.Tree(ODD_TREE, 'c04o-') as tr:
        for segs, fn, mode in todo:
            toks = gen.join_segments(segs, None, lead=False, trail=False)
            text = gen.ser(toks)
            with ctx.case(timeout=20, label=('odd-names', text, fn, mode)):
                check_pattern(ctx, tr, ctx.rng_for('on', text, fn), 0, 0, forced=([toks], text, ['EXTGLOB'] + list(fn), text, {}, mode))
                ctx.count('odd_name_scenario_cases')


def run(ctx):
    quick = ctx.quick
    punctuation_scenarios(ctx)
    odd_name_scenarios(ctx)
    deep_link_scenarios(ctx)
    k = 0
    limit = 120 if quick else 10 ** 9
    while k < limit and not ctx.out_of_time():
        k += 1
        rng = ctx.rng_for('t', ctx.shard, k)
        spec = T.gen_spec(rng, max_entries=15, maxdepth=4 if k % 2 else 3, p_link=0.3)
        with T.Tree(spec, 'c04-') as tr:
            for j in range(10 if quick else 24):
                with ctx.case(timeout=20, label=(ctx.shard, k, j)):
                    check_pattern(ctx, tr, rng, k, j)
    ctx.count('trees', k)
    for c in ('directory_demand_checks', 'dir_fd_cases', 'cwd_cases', 'paths_through_links', 'absolute_vs_relative_checks'):
        ctx.count(c, 0)


def replay(ctx, w):
    import random
    spec = [tuple(x) for x in w['tree']]
    pats = w['pattern'] if isinstance(w['pattern'], str) else list(w['pattern'])
    with T.Tree(spec, 'c04r-') as tr:
        for seed in range(4):
            check_pattern(ctx, tr, random.Random(seed), 0, 1, forced=([x for x in w['ast']], w['text'], list(w['flags']), pats, dict(w.get('kw') or {}), w['root_mode']))
            if ctx.violations:
                break
    return ctx.violations or None
