"""C12 - glob results are well-formed and independent of how the root is given (DESIGN.md section 5, C12)."""
import os
import pathlib

from .. import gen, refmodel as R, tree as T
from ..common import G, flags_of

SPEC = {
    'rule': ('generated trees (files, directories to depth 3, hidden entries, case twins, symlinks to files / directories / '
             'siblings / ancestors / themselves / nowhere) are materialised under a private scratch root; patterns aimed at the '
             'tree (relative, absolute into the root, with `.`/`..`, trailing and duplicate separators; also lists, BRACE, SPLIT '
             'and NEGATE forms) are globbed with the real glob.glob / glob.iglob under sampled subsets of {MARK, NODIR, GLOBSTAR, '
             'DOTGLOB, SCANDOTDIR, MATCHBASE, BRACE, SPLIT, NEGATE, FOLLOW}; each returned element is checked with os.lstat / '
             'os.path.isdir (exists, relative/absolute spelling, trailing separator iff directory where required, no directory '
             'under NODIR), iglob must yield glob\'s list, and the lists obtained with root_dir as str, bytes, pathlib.Path, with '
             'dir_fd, and after chdir into the root must be identical. A case is one (tree, pattern, flag set); it is '
             'non-trivial when glob returned at least one path.'),
    'bounds': {'quick': {'trees_per_shard': 50, 'patterns_per_tree': 22}, 'thorough': {'trees': 'until the time budget', 'patterns_per_tree': 40}},
    'floor': {'quick': 8000, 'thorough': 100000},
    'required_counters': ['mixed_absolute_relative_lists', 'elements_checked', 'root_mode_comparisons', 'absolute_patterns', 'dir_fd_runs', 'chdir_runs', 'iglob_equal'],
    'budget': {'quick': 45, 'thorough': 480},
    'shard_timeout': {'quick': 400, 'thorough': 1500},
    'assumptions': ['os.scandir order is stable for an unchanged directory within one process',
                    'under FOLLOW or `***` only trees without directory cycles are compared (the kernel decides where such a walk ends)'],
}

OPT = ['MARK', 'NODIR', 'GLOBSTAR', 'DOTGLOB', 'SCANDOTDIR', 'MATCHBASE', 'NODOTDIR', 'IGNORECASE', 'FOLLOW', 'GLOBSTARLONG']


def classify(tr, pat_text, fn, elem, what):
    """Mechanism predicates for known findings of this property."""
    return None


def check_elements(ctx, tr, res, pat_text, fn, absolute, trail, single, wit, mixed=False):
    root = tr.root
    for e in res:
        ctx.evals()
        ctx.count('elements_checked')
        full = e if os.path.isabs(e) else os.path.join(root, e)
        problems = []
        if not os.path.lexists(full):
            problems.append('does not exist')
        if not mixed and absolute != os.path.isabs(e):
            problems.append('absolute pattern -> relative result' if absolute else 'relative pattern -> absolute result')
        isdir = os.path.isdir(full)
        if e.endswith('/') and not isdir:
            problems.append('ends with a separator but is not a directory')
        if isdir and not e.endswith('/') and (('MARK' in fn) or (single and trail)) and e not in ('',):
            problems.append('directory without trailing separator although MARK / pattern ended with a separator')
        if 'NODIR' in fn and isdir:
            problems.append('directory returned under NODIR')
        if absolute and not (e == root or e.startswith(root.rstrip('/') + '/')):
            pass  # `..` may legitimately leave the root
        for p in problems:
            ctx.disagree(f'glob result is not well-formed: {p}', dict(wit, element=e), classify(tr, pat_text, fn, e, p))


DIR_FD_ZERO = [0]


def run_modes(ctx, tr, pats, fn, flags, kw, wit, compare_roots=True):
    root = tr.root
    # (created before anything is globbed: a tree with a link to `..` shows the root's parent directory to the patterns)
    sub = next((n for n in sorted(os.listdir(root)) if os.path.isdir(os.path.join(root, n)) and not os.path.islink(os.path.join(root, n))), None)
    via = os.path.join(os.path.dirname(root), 'via-link')
    if sub is not None and compare_roots and not os.path.lexists(via):
        os.symlink(os.path.join(os.path.basename(root), sub), via)
    base = G.glob(pats, flags=flags, root_dir=root, **kw)
    it = list(G.iglob(pats, flags=flags, root_dir=root, **kw))
    ctx.evals()
    ctx.count('iglob_equal')
    if it != base:
        ctx.disagree('iglob does not yield glob\'s list', dict(wit, glob=base[:30], iglob=it[:30]))
    if not compare_roots:
        return base
    results = {'str': base}

    def enc(x):
        return [os.fsencode(p) for p in x] if not isinstance(x, str) else os.fsencode(x)

    try:
        bkw = {k: enc(v) for k, v in kw.items()}
        results['bytes'] = [os.fsdecode(p) for p in G.glob(enc(pats), flags=flags, root_dir=os.fsencode(root), **bkw)]
    except Exception as e:  # noqa: BLE001
        results['bytes'] = f'raised {type(e).__name__}'
    try:
        results['PathLike'] = G.glob(pats, flags=flags, root_dir=pathlib.Path(root), **kw)
    except Exception as e:  # noqa: BLE001
        results['PathLike'] = f'raised {type(e).__name__}'
    fd = os.open(root, os.O_RDONLY | os.O_DIRECTORY)
    try:
        results['dir_fd'] = G.glob(pats, flags=flags, dir_fd=fd, **kw)
        results['iglob dir_fd'] = list(G.iglob(pats, flags=flags, dir_fd=fd, **kw))
        results['iglob PathLike'] = list(G.iglob(pats, flags=flags, root_dir=pathlib.Path(root), **kw))
        ctx.count('dir_fd_runs')
    except Exception as e:  # noqa: BLE001
        results['dir_fd'] = f'raised {type(e).__name__}'
    finally:
        os.close(fd)
    # the descriptor number 0 is a descriptor like any other (a directory opened after standard input was closed)
    if DIR_FD_ZERO[0] % 4 == 0:
        fd = os.open(root, os.O_RDONLY | os.O_DIRECTORY)
        try:
            saved = os.dup(0)
        except OSError:
            saved = None        # standard input is closed in this process: descriptor 0 is free
        try:
            os.dup2(fd, 0)
            try:
                results['dir_fd = 0'] = G.glob(pats, flags=flags, dir_fd=0, **kw)
            except Exception as e:  # noqa: BLE001
                results['dir_fd = 0'] = f'raised {type(e).__name__}'
        finally:
            if saved is not None:
                os.dup2(saved, 0)
                os.close(saved)
            else:
                os.close(0)
            if fd != 0:
                os.close(fd)
        ctx.count('dir_fd_zero_runs')
    DIR_FD_ZERO[0] += 1
    cwd = os.getcwd()
    try:
        os.chdir(root)
        results['chdir'] = G.glob(pats, flags=flags, **kw)
        ctx.count('chdir_runs')
    except Exception as e:  # noqa: BLE001
        results['chdir'] = f'raised {type(e).__name__}'
    finally:
        os.chdir(cwd)
    # other spellings of the same directory: a trailing separator, a `.` segment, and `..` behind a symlink that lives elsewhere
    # (`via/..` is the root itself although it reads like the root's parent)
    spellings = {'root_dir with a trailing separator': root + '/', 'root_dir ending in /.': root + '/.'}
    if sub is not None:
        if os.path.realpath(via) == os.path.realpath(os.path.join(root, sub)):
            spellings['root_dir spelled <link elsewhere>/..'] = via + '/..'
            spellings['root_dir spelled <link elsewhere>/../ as bytes'] = os.fsencode(via + '/../')
    for what, rd in spellings.items():
        try:
            if isinstance(rd, bytes):
                results[what] = [os.fsdecode(p) for p in G.glob(enc(pats), flags=flags, root_dir=rd, **{k: enc(v) for k, v in kw.items()})]
            else:
                results[what] = G.glob(pats, flags=flags, root_dir=rd, **kw)
        except Exception as e:  # noqa: BLE001
            results[what] = f'raised {type(e).__name__}'
        ctx.count('root_spelling_runs')
    for mode, r in results.items():
        ctx.evals()
        ctx.count('root_mode_comparisons')
        if r != base:
            ctx.disagree(f'result differs when the root is given as {mode}', dict(wit, root_dir_str=base[:40], other=r[:40] if isinstance(r, list) else r))
    return base


def one_pattern(ctx, tr, rng, k, j):
    ents = tr.lexical()
    toks = gen.tree_pattern(rng, ents, ext=True, globstar=True)
    if gen.ambiguous_adjacency(toks):
        return
    text = gen.ser(toks)
    fn = ['EXTGLOB'] + [f for f in OPT if rng.random() < 0.25]
    if tr.has_dir_cycle():
        fn = [f for f in fn if f not in ('FOLLOW', 'GLOBSTARLONG')]
    if 'GLOBSTARLONG' in fn and 'GLOBSTAR' not in fn:
        fn.append('GLOBSTAR')
    mode = rng.random()
    absolute = False
    kw = {}
    single = True
    pats = text
    trail = text.endswith('/')
    if mode < 0.15:
        absolute = True
        pats = G.escape(tr.root) + '/' + text
        if text.startswith('/'):
            return
    elif mode < 0.3:
        # list / BRACE / SPLIT / NEGATE forms
        t2 = gen.ser(gen.tree_pattern(rng, ents))
        single = False
        form = rng.choice(['list', 'brace', 'split', 'negate', 'exclude', 'abs-then-rel', 'rel-then-abs', 'abs|rel'])
        if form in ('abs-then-rel', 'rel-then-abs', 'abs|rel'):
            # absolute and relative patterns in one call: each keeps its own spelling and its own base
            a = G.escape(tr.root) + '/' + t2.lstrip('/')
            if text.startswith('/'):
                return
            if form == 'abs-then-rel':
                pats = [a, text]
            elif form == 'rel-then-abs':
                pats = [text, a]
            else:
                pats = a + '|' + text
                fn.append('SPLIT')
            ctx.count('mixed_absolute_relative_lists')
        elif form == 'list':
            pats = [text, t2]
        elif form == 'brace':
            pats = '{' + text + ',' + t2 + '}'
            fn.append('BRACE')
        elif form == 'split':
            pats = text + '|' + t2
            fn.append('SPLIT')
        elif form == 'negate':
            pats = [text, '!' + t2]
            fn.append('NEGATE')
        else:
            kw = {'exclude': t2}
    flags = flags_of(fn)
    wit = {'tree': tr.spec, 'pattern': pats, 'flags': fn, 'kw': kw}
    if absolute:
        ctx.count('absolute_patterns')
    try:
        res = run_modes(ctx, tr, pats, fn, flags, kw, wit)
    except Exception as e:  # noqa: BLE001
        ctx.disagree(f'glob raised {type(e).__name__}', dict(wit, exception=repr(e)[:200]))
        return
    check_elements(ctx, tr, res, text, fn, absolute, trail, single, wit, mixed=not isinstance(pats, str) and any(os.path.isabs(x) for x in pats) or (isinstance(pats, str) and '|' in pats and os.path.isabs(pats)))
    if res:
        ctx.mark_nontrivial((k, j))
    if j == 0 and k % 6 == 0:
        ctx.sample({'tree': tr.spec, 'pattern': pats, 'flags': fn, 'result': res[:8]})


FIXED_TREE = [('f', 'f', None), ('d', 'd', None), ('d/f2', 'f', None), ('d/e', 'd', None), ('d/e/g', 'f', None), ('.h', 'f', None),
              ('.hd', 'd', None), ('.hd/x', 'f', None), ('ld', 'l', 'd'), ('lf', 'l', 'f'), ('dangling', 'l', 'nowhere'),
              ('loop', 'l', 'loop'), ('README', 'f', None), ('thru', 'l', 'f/x'), ('long', 'l', 'n' * 300), ('ping', 'l', 'pong'), ('pong', 'l', 'ping'),
              # names holding a line feed or (an ordinary character on POSIX) a backslash
              ('n\nl', 'd', None), ('n\nl/k', 'f', None), ('w\n', 'd', None), ('bs\\', 'f', None), ('e\n', 'f', None), ('bd\\', 'd', None), ('bd\\/i', 'f', None)]
FIXED_PATTERNS = ['.', '..', './', '../', '*/.', 'd/..', 'd/.', '.|f', '{.,f}', '**/.', 'd', 'd/', 'f', 'f/', 'dangling', 'dangling/', 'ld', 'ld/',
                  'ld/*', '', '*', '**', '**/', './f', 'd//f2', 'd/../f', 'README/', 'README/**', 'README//', 'loop', 'loop/', 'lf', 'lf/', 'dangling|f',
                  '{dangling,loop}', '.h', '.hd', '.hd/', '.*', 'd/e', 'd/e/', 'd/*/', '*/', '*/*', 'd/**', 'ld/**', './.', '.././', 'nope', 'nope/',
                  'd/./f2', '[d]', '[d]/', '?', 'f|f/', '{d,d/}', './/', 'd///', 'thru', 'thru/', 't*', 't*/', 'long', 'l*/', 'ping', 'p*/', '{ping,d}/', '**/t*', 'b*', 'b*/', 'n*', 'n*/*', 'w*', '?', '??', '[e]*', '*\\\\', 'b?\\\\']
FIXED_FLAGSETS = [(), ('MARK',), ('NODIR',), ('MARK', 'GLOBSTAR'), ('SCANDOTDIR', 'MARK'), ('NODOTDIR',), ('MARK', 'DOTGLOB', 'GLOBSTAR'),
                  ('GLOBSTAR', 'FOLLOW', 'MARK'), ('NODIR', 'GLOBSTAR', 'DOTGLOB'), ('MARK', 'MATCHBASE'), ('IGNORECASE', 'MARK')]


def fixed_patterns(ctx):
    """Literal starts, `.` / `..`, trailing and doubled separators, dangling and looping links, files named like directories:
    every pattern x every flag set on one hand-built tree (deterministic part)."""
    idx = 0
    todo = []
    for pat in FIXED_PATTERNS:
        for fn in FIXED_FLAGSETS:
            idx += 1
            if ctx.mine(idx):
                todo.append((pat, fn))
    if not todo:
        return
    with T.Tree(FIXED_TREE, 'c12f-') as tr:
        for pat, fn in todo:
            fl = ['EXTGLOB'] + list(fn)
            if '|' in pat:
                fl.append('SPLIT')
            if '{' in pat:
                fl.append('BRACE')
            wit = {'tree': FIXED_TREE, 'pattern': pat, 'flags': fl, 'kw': {}, 'mode': 'fixed'}
            with ctx.case(timeout=20, label=('fixed', pat, fn)):
                try:
                    res = run_modes(ctx, tr, pat, fl, flags_of(fl), {}, wit)
                except Exception as e:  # noqa: BLE001
                    ctx.disagree(f'glob raised {type(e).__name__}', dict(wit, exception=repr(e)[:200]))
                    continue
                single = '|' not in pat and '{' not in pat
                check_elements(ctx, tr, res, pat, fl, False, pat.endswith('/'), single, wit)
                ctx.count('fixed_pattern_cases')
                if res:
                    ctx.mark_nontrivial(('fixed', pat, fn))


def run(ctx):
    quick = ctx.quick
    fixed_patterns(ctx)
    k = 0
    limit = 50 if quick else 10 ** 9
    while k < limit and not ctx.out_of_time():
        k += 1
        rng = ctx.rng_for('t', ctx.shard, k)
        spec = T.gen_spec(rng)
        with T.Tree(spec, 'c12-') as tr:
            for j in range(22 if quick else 40):
                with ctx.case(timeout=20, label=('tree', ctx.shard, k, j)):
                    one_pattern(ctx, tr, rng, k, j)
    ctx.count('trees', k)
    for c in ('absolute_patterns', 'dir_fd_runs', 'chdir_runs'):
        ctx.count(c, 0)


def replay(ctx, w):
    spec = [tuple(x) for x in w['tree']]
    fn = list(w['flags'])
    pats = w['pattern'] if isinstance(w['pattern'], str) else list(w['pattern'])
    kw = dict(w.get('kw') or {})
    with T.Tree(spec, 'c12r-') as tr:
        if isinstance(pats, str) and os.path.isabs(pats):
            # absolute patterns embed the scratch root of the original run: re-root them
            idx = pats.find('/w/x/y/root/')
            if idx >= 0:
                pats = G.escape(tr.root) + pats[idx + len('/w/x/y/root'):]
        text = pats if isinstance(pats, str) else pats[0]
        res = run_modes(ctx, tr, pats, fn, flags_of(fn), kw, {'tree': spec, 'pattern': pats, 'flags': fn, 'kw': kw})
        check_elements(ctx, tr, res, text, fn, isinstance(pats, str) and os.path.isabs(pats), isinstance(pats, str) and pats.endswith('/'),
                       isinstance(pats, str) and 'BRACE' not in fn and 'SPLIT' not in fn, {'tree': spec, 'pattern': pats, 'flags': fn, 'kw': kw})
    return ctx.violations or None
