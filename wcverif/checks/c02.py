"""C02 - path matching respects separators, segments, globstar and MATCHBASE (DESIGN.md section 5, C02)."""
import itertools

from .. import gen, refmodel as R, findings
from ..common import G, flags_of, names_of, shape

SPEC = {
    'rule': ('path-mode pattern ASTs (1-3 segments from a pool of literal / wildcard / bracket / extglob / `**` / `***` '
             'segments, `**` glued to text, separators written `/`, `//`, `\\/`, optional leading and trailing separator, plus '
             'fixed templates such as `a[/]b`) are serialised and run through the real glob.compile(...).match / '
             'glob.globmatch / glob.globfilter without REALPATH under rotating subsets of {GLOBSTAR, GLOBSTARLONG, MATCHBASE, '
             'DOTGLOB, NODIR} (EXTGLOB on; off for group-free patterns); every path of a per-pattern universe (all 1-3 segment '
             'paths over a pool of segment names derived from the pattern, with trailing / duplicated / leading separator '
             'variants) is judged by the three-valued path reference model. Paths with hidden segments are skipped unless '
             'DOTGLOB and paths with `.`/`..` segments always (C03). A case is one (pattern, flag set); it is non-trivial when '
             'its universe held at least one must-match and one must-not path.'),
    'bounds': {'quick': {'two_segment_exhaustive_pool': 49, 'sampled_pct': 12, 'random_asts_per_shard': 120, 'paths_per_pattern': '<= 420'},
               'thorough': {'two_segment_exhaustive_pool': 49, 'three_segment_sampled': True, 'random_asts': 'until the time budget'}},
    'floor': {'quick': 200000, 'thorough': 2000000},
    'required_counters': ['must_match', 'must_not_match', 'api_consistency_checks', 'globstar_patterns', 'matchbase_patterns'],
    'budget': {'quick': 50, 'thorough': 540},
    'shard_timeout': {'quick': 400, 'thorough': 1500},
    'assumptions': [
        'the path reference model (refmodel.path_match3) is a faithful reading of docs/src/markdown/glob.md and of C02',
        'DON\'T-CARE zones (DESIGN.md 4.2) assert nothing: relative pattern starting with `**` vs absolute path, a final '
        'non-first `**` matching zero segments against a path without trailing separator, nullable segment patterns against '
        'no segment, `/` inside an extended group',
    ],
}

FLAGSETS = [
    (), ('GLOBSTAR',), ('GLOBSTAR', 'DOTGLOB'), ('GLOBSTARLONG',), ('MATCHBASE',), ('MATCHBASE', 'GLOBSTAR'),
    ('GLOBSTAR', 'NODIR'), ('DOTGLOB',), ('GLOBSTARLONG', 'DOTGLOB', 'MATCHBASE'), ('NODIR', 'DOTGLOB'),
    ('GLOBSTAR', 'GLOBSTARLONG'), ('MATCHBASE', 'NODIR', 'GLOBSTAR', 'DOTGLOB'),
]


def pathspec(fnames):
    return R.PathSpec(dot='DOTGLOB' in fnames, icase='IGNORECASE' in fnames and 'CASE' not in fnames,
                      globstar='GLOBSTAR' in fnames, globstarlong='GLOBSTARLONG' in fnames,
                      matchbase='MATCHBASE' in fnames, nodotdir='NODOTDIR' in fnames, nodir='NODIR' in fnames)


def has_group(toks):
    return any(t[0] == 'grp' for t in toks)


def skip_path(path, ps):
    for seg in path.split('/'):
        if seg in ('.', '..'):
            return True
        if seg.startswith('.') and not ps.dot:
            return True
    return False


def check_pattern(ctx, toks, fnames, paths, api_sample=False, noescape=()):
    pat = gen.ser(toks, noescape)
    ext = () if ('NOEXT' in fnames) else ('EXTGLOB',)
    fn = tuple(f for f in fnames if f != 'NOEXT') + ext
    flags = flags_of(('EXTMATCH' if f == 'EXTGLOB' else 'DOTMATCH' if f == 'DOTGLOB' else f) for f in fn)
    ps = pathspec(fn)
    try:
        m = G.compile(pat, flags=flags)
    except Exception as e:  # noqa: BLE001
        ctx.evals()
        ctx.disagree(f'glob.compile raised {type(e).__name__}|{shape(toks)}',
                     {'api': 'glob.compile', 'ast': toks, 'pattern': pat, 'flags': list(fn), 'exception': repr(e),
                      'noescape': ''.join(noescape)})
        return
    n_yes = n_no = 0
    got_all = []
    paths = list(dict.fromkeys(paths))
    for path in paths:
        if skip_path(path, ps):
            continue
        exp = R.path_match3(toks, path, ps)
        try:
            got = m.match(path)
        except Exception as e:  # noqa: BLE001
            got = f'raised {type(e).__name__}'
        got_all.append((path, got))
        ctx.evals()
        if exp is None:
            ctx.count('dont_care')
            continue
        if exp:
            n_yes += 1
        else:
            n_no += 1
        if got is not exp:
            fid = findings.classify_path(toks, path, ps, got) if isinstance(got, bool) else None
            ctx.disagree(f'globmatch expected {exp} got {got}|{shape(toks)}|{"+".join(fn)}',
                         {'api': 'glob.compile().match', 'ast': toks, 'pattern': pat, 'flags': list(fn), 'path': path,
                          'expected': exp, 'observed': got, 'noescape': ''.join(noescape)}, fid)
    ctx.count('must_match', n_yes)
    ctx.count('must_not_match', n_no)
    if any(t[0] in ('gstar', 'gstarlong') for t in toks) and (ps.globstar):
        ctx.count('globstar_patterns')
    if ps.matchbase and not R.has_sep(toks):
        ctx.count('matchbase_patterns')
    if n_yes and n_no:
        ctx.mark_nontrivial((pat, flags))
    if api_sample and got_all:
        sel = [p for p, _ in got_all]
        want = [p for p, g in got_all if g is True]
        try:
            flt = G.globfilter(sel, pat, flags=flags)
            mflt = m.filter(sel)
            singles = [p for p in sel[:40] if G.globmatch(p, pat, flags=flags)]
        except Exception as e:  # noqa: BLE001
            flt = mflt = singles = f'raised {type(e).__name__}'
        ctx.count('api_consistency_checks', 3)
        ctx.evals(3)
        if flt != want or mflt != want or singles != [p for p in want if p in sel[:40]]:
            ctx.disagree(f'globfilter/globmatch/compile disagree|{shape(toks)}',
                         {'api': 'glob.globfilter', 'ast': toks, 'pattern': pat, 'flags': list(fn), 'paths': sel[:60],
                          'compiled_match': want[:60], 'filter': flt[:60] if isinstance(flt, list) else flt,
                          'noescape': ''.join(noescape)})
    if ctx.cases % 400 == 1:
        ctx.sample({'pattern': pat, 'flags': list(fn), 'paths_tried': len(got_all), 'must_match': n_yes,
                    'must_not': n_no, 'example_paths': [p for p, _ in got_all[:6]]})


TEMPLATES = [
    # two stars in front of an extended list at the start of a segment: the second star opens the list (also under GLOBSTAR)
    ((('star',), ('grp', '*', ((('lit', 'a'),), (('lit', 'b'),))), ('lit', 'c')), '', ['abc', 'xc', 'c', 'xabc', '(a|b)c', 'x(a|b)c', 'a/c', 'bc', 'ab', 'x/c']),
    ((('lit', 'd'), ('sep', '/'), ('star',), ('grp', '*', ((('lit', 'a'),),))), '', ['d/a', 'd/xa', 'd/', 'd/x', 'd/(a)', 'd/x/a', 'd/aa', 'd']),
    ((('gstar',), ('sep', '/'), ('star',), ('grp', '*', ((('lit', 'x'),),))), '', ['x', 'a/x', 'a/bx', 'a/b/xx', 'a', 'a/(x)', 'ax']),
    ((('star',), ('grp', '*', ((('lit', 'a'),),)), ('sep', '/'), ('lit', 'b')), '', ['a/b', 'xa/b', 'x/b', '(a)/b', '/b', 'b', 'aa/b']),
    # `/` inside brackets makes the bracket literal
    ((('lit', 'a'), ('lit', '['), ('sep', '/'), ('lit', ']'), ('lit', 'b')), '[]', ['a[/]b', 'a[', 'a/b', 'ab', 'a[/b', 'a//b']),
    ((('lit', '['), ('lit', 'a'), ('sep', '/'), ('lit', 'b'), ('lit', ']')), '[]', ['[a/b]', 'a', 'b', 'a/b', '/']),
    ((('lit', 'a'), ('sep', '/'), ('star',), ('sep', '/'), ('lit', 'c')), '', ['a/c', 'a//c', 'a/b/c', 'a/b/b/c', 'a/b/c/', 'a/bc']),
    ((('star',),), '', ['a', 'a/', 'a/b', '/', '/a', 'ab']),
    ((('lit', 'a'), ('sep', '/')), '', ['a', 'a/', 'a//', 'a/b', '/a/']),
    ((('lit', 'a'), ('sep', '/'), ('gstar',)), '', ['a', 'a/', 'a/b', 'a/b/c', 'ab', 'b/a']),
    ((('gstar',), ('sep', '/'), ('lit', 'a')), '', ['a', 'b/a', 'b/c/a', 'a/b', 'ba', 'b/a/']),
    ((('gstar',), ('sep', '/')), '', ['a', 'a/', 'a/b', 'a/b/']),
    ((('lit', 'a'), ('sep', '/'), ('gstar',), ('sep', '/'), ('lit', 'b')), '', ['a/b', 'a/x/b', 'a/x/y/b', 'ab', 'a/b/c', 'a//b']),
    ((('gstarlong',), ('sep', '/'), ('lit', 'a')), '', ['a', 'b/a', 'b/c/a', 'ba']),
    # adjacent globstars are one
    ((('gstar',), ('sep', '/'), ('gstar',), ('sep', '/'), ('star',)), '', ['a', 'a/', 'a/b', '/', 'a//', 'a/b/c']),
    ((('lit', 'a'), ('sep', '/'), ('gstar',), ('sep', '/'), ('gstar',), ('sep', '/'), ('star',)), '', ['a', 'a/', 'a//', 'a/b', 'a/b/c', 'b/a/c']),
    ((('gstar',), ('sep', '/'), ('gstar',), ('sep', '/'), ('gstar',), ('sep', '/'), ('lit', 'a')), '', ['a', 'a/', 'b/a', 'b/c/a', 'ab']),
    ((('lit', 'a'), ('sep', '/'), ('gstar',), ('sep', '/'), ('gstar',), ('sep', '/'), ('gstar',), ('sep', '/'), ('lit', 'b')), '', ['a/b', 'a/b/', 'a/x/b', 'a/x/y/b', 'ab']),
    ((('lit', 'a'), ('sep', '/'), ('gstar',), ('sep', '//'), ('gstar',), ('sep', '/'), ('grp', '!', ((('lit', 'b'),),))), '', ['a/', 'a/c', 'a/b', 'a/c/b', 'a/c/d', 'a//']),
    ((('gstarlong',), ('sep', '/'), ('gstar',), ('sep', '/'), ('gstarlong',), ('sep', '/'), ('lit', 'b')), '', ['b', 'b/', 'a/b', 'a/c/b']),
    ((('gstar',), ('sep', '/'), ('gstarlong',), ('sep', '/'), ('q',)), '', ['a', 'a/', 'b/a', '/', 'ab']),
    # a bracket expression never matches the separator, wherever it stands and however the separator got into it (range, class, negation)
    ((('lit', 'a'), ('set', False, (('r', '+', '9'),)), ('lit', 'b')), '', ['a/b', 'a.b', 'a5b', 'ab', 'a+b', 'a/b/', 'a//b']),
    ((('lit', 'a'), ('set', False, (('p', 'punct'),)), ('lit', 'b')), '', ['a/b', 'a.b', 'a5b', 'ab', 'a+b', 'a-b']),
    ((('lit', 'a'), ('set', True, (('c', 'x'),)), ('lit', 'b')), '', ['a/b', 'a.b', 'axb', 'ab', 'a+b']),
    ((('set', False, (('r', '+', '9'),)), ('lit', 'b')), '', ['/b', '+b', '.b', 'b', '5b']),
    ((('star',), ('set', False, (('r', ' ', '~'),))), '', ['a/', 'ab', 'a', '/', 'a/b']),
    ((('lit', 'x'), ('sep', '/'), ('lit', 'a'), ('set', False, (('p', 'graph'),)), ('lit', 'b'), ('sep', '/'), ('lit', 'y')), '', ['x/a/b/y', 'x/a.b/y', 'x/a-b/y', 'x/ab/y']),
    ((('grp', '@', ((('lit', 'a'), ('set', False, (('r', '+', '9'),)), ('lit', 'b')),)),), '', ['a/b', 'a.b', 'a5b', 'ab']),
    ((('lit', 'a'), ('q',), ('set', False, (('r', '%', 'z'),)), ('star',)), '', ['ab/', 'ab/c', 'abc', 'abcd', 'a//', 'ab5']),
]

# every spelling of a separator run (plain and escaped separators in any order) is one separator
for _sep in sorted(set(gen.SEPS)):
    TEMPLATES.append(((('lit', 'a'), ('sep', _sep), ('lit', 'b')), '', ['a/b', 'a//b', 'ab', 'a/b/', 'a///b', 'a/']))
    TEMPLATES.append(((('gstar',), ('sep', _sep), ('lit', 'b')), '', ['b', 'a/b', 'a//b', 'x/a/b', 'ab']))
    TEMPLATES.append(((('lit', 'a'), ('sep', _sep)), '', ['a', 'a/', 'a//', 'a/b']))


GROUP_SEP_OUTER = ['@(%s\\/b)', '@(%s/b)', '*(%s\\/)b', '@(%s|**/b)', '@(%s\\/b)c', '@(x|%s\\/b)', '+(%s\\/*)', '!(%s\\/b)', '@(%s\\/**)',
                   '@(%s|b)/c', '@(%s)/c', '?(%s\\/)b', '@(%s\\/)', 'x/@(%s\\/b)', '@(%s//b)', '@(%s|***/b)', '@(y|%s|**/b)/c']
GROUP_SEP_INNER = ['a', '[a]', '?', '*', 'a*']
GROUP_SEP_NAMES = ['a/b', 'a//b', 'a/a/b', 'a/y/b', 'x/b', 'a/bc', '/bc', '/b', 'a', 'b', 'ab', 'abc', 'a/', 'a/c', 'x/c', 'aa/b', 'a/b/', 'a/x',
                   'a/x/y', 'a/.b', '.a/b', 'a/a/', 'x/a/b', 'x/ab', 'b/c', 'y/c', 'a/b/c', 'x/y/b', 'ay/b', 'a/\n']


def group_separator_templates(ctx):
    """A separator written inside an extended group is a don't-care zone of the model, but one relation holds whatever it means:
    wrapping a piece of the group in `@(...)` changes nothing (what a nested group leaves behind in the parser must not show)."""
    idx = 0
    for outer in GROUP_SEP_OUTER:
        for inner in GROUP_SEP_INNER:
            for wrap in ('@(%s)', '@(%s|%s)', '@(@(%s))'):
                for fn in FLAGSETS[:9]:
                    idx += 1
                    if not ctx.mine(idx):
                        continue
                    plain, nested = outer % inner, outer % (wrap.replace('%s', inner))
                    flags = flags_of(('EXTGLOB',) + fn)
                    with ctx.case(label=(nested, fn)):
                        try:
                            a = [G.globmatch(n, plain, flags=flags) for n in GROUP_SEP_NAMES]
                            b = [G.globmatch(n, nested, flags=flags) for n in GROUP_SEP_NAMES]
                            mc = G.compile(nested, flags=flags)
                            c = [mc.match(n) for n in GROUP_SEP_NAMES]
                        except Exception as e:  # noqa: BLE001
                            ctx.disagree(f'globmatch raised {type(e).__name__}', {'pattern': nested, 'plain': plain, 'flags': list(fn)})
                            continue
                        ctx.evals(3 * len(GROUP_SEP_NAMES))
                        ctx.count('group_separator_templates')
                        if a != b or b != c:
                            diff = [n for n, x, y, z in zip(GROUP_SEP_NAMES, a, b, c) if not (x == y == z)]
                            ctx.disagree('wrapping a piece of an extended group in `@(...)` changes what the group matches around a separator',
                                         {'api': 'glob.globmatch', 'pattern': nested, 'equivalent': plain, 'flags': list(('EXTGLOB',) + fn),
                                          'names_that_differ': diff[:8], 'plain_answers': [x for n, x in zip(GROUP_SEP_NAMES, a) if n in diff][:8]})
                        if any(a) and not all(a):
                            ctx.mark_nontrivial((plain, fn))


def degenerate_patterns(ctx):
    """The empty pattern (alone, as a list element, as an empty SPLIT / BRACE alternative) denotes nothing, whatever implicit prefix
    the flags would put in front of a real pattern; it changes nothing next to other patterns."""
    names = ['a', 'a/b', 'b', 'a/', '/', 'x/y/b', '.a', 'a/.b', ' ', '\n', 'a\n', '//']
    idx = 0
    for fn in FLAGSETS:
        for extra in ((), ('NEGATE',), ('DOTGLOB', 'NEGATE', 'NEGATEALL')):
            idx += 1
            if not ctx.mine(idx):
                continue
            flags = flags_of(('EXTGLOB',) + fn + extra)
            with ctx.case(label=('degenerate', fn, extra)):
                for as_bytes in (False, True):
                    c = (lambda x: x.encode()) if as_bytes else (lambda x: x)
                    try:
                        nothing = [('empty text', c('')), ('list holding the empty text', [c('')]), ('tuple of two empty texts', (c(''), c(''))), ('empty list', []),
                                   ('lone backslash', c('\\'))]
                        for what, pat in nothing:
                            got = [n for n in names if G.globmatch(c(n), pat, flags=flags)] + [n for n in G.globfilter([c(n) for n in names], pat, flags=flags)]
                            ctx.evals(2 * len(names))
                            ctx.count('degenerate_pattern_checks')
                            if got:
                                ctx.disagree('a pattern without text matches something', {'api': 'glob.globmatch / globfilter', 'pattern': repr(pat), 'what': what,
                                                                                         'flags': list(('EXTGLOB',) + fn + extra), 'matched': [repr(x) for x in got[:6]]})
                        base = [G.globmatch(c(n), c('b'), flags=flags) for n in names]
                        same = [('b| under SPLIT', c('b|'), G.SPLIT), ('|b under SPLIT', c('|b'), G.SPLIT), ('list [b, empty]', [c('b'), c('')], 0),
                                ('list [empty, b]', [c(''), c('b')], 0), ('{b,} under BRACE', c('{b,}'), G.BRACE), ('b||b under SPLIT', c('b||b'), G.SPLIT)]
                        for what, pat, fl in same:
                            got = [G.globmatch(c(n), pat, flags=flags | fl) for n in names]
                            ctx.evals(len(names))
                            ctx.count('degenerate_pattern_checks')
                            if got != base:
                                ctx.disagree('an empty alternative / list element changes what the other pattern matches',
                                             {'api': 'glob.globmatch', 'pattern': repr(pat), 'what': what, 'flags': list(('EXTGLOB',) + fn + extra),
                                              'names': names, 'alone': base, 'with_empty': got})
                    except Exception as e:  # noqa: BLE001
                        ctx.disagree(f'globmatch raised {type(e).__name__} for a degenerate pattern', {'flags': list(('EXTGLOB',) + fn + extra), 'exception': repr(e)[:200]})
                ctx.mark_nontrivial(('degenerate', fn, extra))


def run(ctx):
    quick = ctx.quick
    idx = 0
    group_separator_templates(ctx)
    degenerate_patterns(ctx)
    # ---- fixed templates under every flag set -------------------------------------------------
    for ti, (toks, noesc, paths) in enumerate(TEMPLATES):
        for fi, fn in enumerate(FLAGSETS):
            idx += 1
            if not ctx.mine(idx):
                continue
            with ctx.case(label=(gen.ser(toks, noesc), fn)):
                extra = gen.path_universe(toks, ctx.rng_for('tpl', ti, fi), allow_hidden=True)
                check_pattern(ctx, toks, fn, paths + extra, api_sample=True, noescape=frozenset(noesc))
    # ---- bounded-exhaustive two-segment patterns ----------------------------------------------
    pool = gen.seg_pool_small()
    for s1, s2 in itertools.product(pool, repeat=2):
        for variant in range(6):
            idx += 1
            if quick and (idx * 2654435761) % 100 >= 9:
                continue
            if not ctx.mine(idx):
                continue
            sep = ('/', '//', '\\/', '/', '\\/\\/', '/\\/')[variant]
            toks = gen.join_segments([s1, s2], lead=(variant == 3 and idx % 3 == 0), trail=(variant == 1 or idx % 7 == 0),
                                     seps=[sep])
            if not gen.in_fragment_path(toks):
                continue
            fn = FLAGSETS[idx % len(FLAGSETS)]
            if not has_group(toks) and idx % 5 == 0:
                fn = fn + ('NOEXT',)
            with ctx.case(label=(gen.ser(toks), fn)):
                paths = gen.path_universe(toks, ctx.rng_for('p2', idx), allow_hidden=True)
                check_pattern(ctx, toks, fn, paths, api_sample=(idx % 16 == 0))
    # ---- three segments, sampled (in quick: only sequences with at least two recursive segments) ------
    if True:
        gsegs = {(('gstar',),), (('gstarlong',),)}
        for s1, s2, s3 in itertools.product(pool, repeat=3):
            idx += 1
            if quick:
                if sum(1 for x in (s1, s2, s3) if x in gsegs) < 2:
                    continue
            elif (idx * 2654435761) % 1000 >= 30:
                continue
            if not ctx.mine(idx):
                continue
            if ctx.out_of_time():
                break
            rng = ctx.rng_for('p3', idx)
            toks = gen.join_segments([s1, s2, s3], rng, lead=rng.random() < 0.1, trail=rng.random() < 0.2)
            if not gen.in_fragment_path(toks):
                continue
            fn = FLAGSETS[idx % len(FLAGSETS)]
            with ctx.case(label=(gen.ser(toks), fn)):
                check_pattern(ctx, toks, fn, gen.path_universe(toks, rng, allow_hidden=True), api_sample=(idx % 16 == 0))
    # ---- single segment: the whole C01 pool in path mode (MATCHBASE etc.) -----------------------
    for k, seg in enumerate(gen.enum_sequences(gen.token_pool(), 1)):
        idx += 1
        if not ctx.mine(idx) or not gen.in_fragment(seg):
            continue
        if quick and k % 3:
            continue
        fn = FLAGSETS[k % len(FLAGSETS)]
        with ctx.case(label=(gen.ser(seg), fn)):
            check_pattern(ctx, seg, fn, gen.path_universe(seg, ctx.rng_for('p1', k), allow_hidden=True), api_sample=(k % 16 == 0))
    # ---- random deeper ASTs ----------------------------------------------------------------------
    k = 0
    limit = 120 if quick else 10 ** 9
    while k < limit and not ctx.out_of_time():
        k += 1
        rng = ctx.rng_for('rand', ctx.shard, k)
        toks = gen.rand_path_tokens(rng, maxseg=rng.randint(1, 4), alpha=rng.choice(('ab.c', 'ab.', 'aB.x', 'a\xe9.\u0416', 'a.\U0001f600\xff')),
                                    depth=rng.randint(0, 2))
        if gen.ambiguous_adjacency(toks) or not gen.in_fragment_path(toks):
            continue
        fn = FLAGSETS[k % len(FLAGSETS)]
        with ctx.case(label=(gen.ser(toks), fn)):
            check_pattern(ctx, toks, fn, gen.path_universe(toks, rng, allow_hidden=True), api_sample=(k % 10 == 0))
    ctx.count('random_asts', k)


def replay(ctx, w):
    noescape = frozenset(w.get('noescape') or '')
    paths = [w['path']] if 'path' in w else list(w.get('paths', ()))
    check_pattern(ctx, w['ast'], tuple(f for f in w['flags'] if f != 'EXTGLOB') +
                  (() if 'EXTGLOB' in w['flags'] else ('NOEXT',)), paths, api_sample='paths' in w, noescape=noescape)
    return ctx.violations or None
