"""C10 - every string is an acceptable pattern: no crashes, no invalid regexes (DESIGN.md section 5, C10)."""
import itertools
import os
import re
import shutil

from .. import env, gen, rawdecode
from ..common import F, G, P, FLAGN, names_of, pathlib_mask
from wcmatch import pathlib as WP, wcmatch as WM

PATHLIB_MASK = pathlib_mask()

SPEC = {
    'rule': ('every string up to the length bound over the metacharacter alphabets, random strings up to length 40 and '
             'token mutations of valid serialisations, as str and bytes, under rotating + random flag subsets, is handed to '
             'every public entry point (fnmatch/filter/translate/compile, globmatch/globfilter/translate/compile, glob on a '
             'small real tree, PurePath.match/globmatch, Path.glob/rglob, WcMatch); the exception monitor classifies the '
             'outcome of each call and every translated regex is re.compile()d. A case is one (string, type, flag set); it '
             'is non-trivial when the string contains at least one metacharacter.'),
    'bounds': {
        'quick': {'alphabet_A': '*?[]()|!\\a up to length 4 exhaustive', 'alphabet_B': '/.-{},@+*(\\!a up to length 3',
                  'random_strings_per_shard': 150},
        'thorough': {'alphabet_A': 'up to length 5 exhaustive, length 6 sampled', 'alphabet_B': 'up to length 4',
                     'random_strings': 'until the time budget'},
    },
    'floor': {'quick': 100000, 'thorough': 1000000},
    'required_counters': ['calls', 'regexes_compiled', 'malformed_semantics_checked', 'bracket_sweep_strings'],
    'budget': {'quick': 50, 'thorough': 600},
    'shard_timeout': {'quick': 400, 'thorough': 1800},
    'assumptions': [
        'allowed outcomes: normal return, PatternLimitException, SyntaxError/LookupError/ValueError only with RAWCHARS and '
        'an escape the independent decoder rejects, ValueError only for Path.glob/rglob with a pattern containing a '
        'separator-capable character; anything else is a violation',
        'catastrophic regex backtracking is not one of the properties: a watchdog hit is inconclusive',
    ],
}

ALPHA_A = '*?[]()|!\\a'
ALPHA_B = '/.-{},@+*(\\!a'

FN_FLAGS = ['CASE', 'IGNORECASE', 'RAWCHARS', 'NEGATE', 'MINUSNEGATE', 'DOTMATCH', 'EXTMATCH', 'BRACE', 'SPLIT',
            'NEGATEALL', 'FORCEWIN', 'FORCEUNIX']
GL_FLAGS = FN_FLAGS + ['GLOBSTAR', 'GLOBSTARLONG', 'FOLLOW', 'MATCHBASE', 'NODIR', 'GLOBTILDE', 'NOUNIQUE', 'NODOTDIR',
                       'MARK', 'SCANDOTDIR']
WM_FLAGS = {'CASE': WM.CASE, 'IGNORECASE': WM.IGNORECASE, 'RAWCHARS': WM.RAWCHARS, 'EXTMATCH': WM.EXTMATCH,
            'GLOBSTAR': WM.GLOBSTAR, 'BRACE': WM.BRACE, 'MINUSNEGATE': WM.MINUSNEGATE, 'MATCHBASE': WM.MATCHBASE,
            'DIRPATHNAME': WM.DIRPATHNAME, 'FILEPATHNAME': WM.FILEPATHNAME, 'SYMLINKS': WM.SYMLINKS,
            'HIDDEN': WM.HIDDEN, 'RECURSIVE': WM.RECURSIVE}

ROTATION = [
    ('EXTMATCH',), ('EXTMATCH', 'NEGATE', 'SPLIT'), ('EXTMATCH', 'BRACE', 'GLOBSTAR', 'DOTMATCH'),
    (), ('EXTMATCH', 'RAWCHARS', 'NEGATE', 'MINUSNEGATE'), ('EXTMATCH', 'FORCEWIN', 'SPLIT', 'BRACE'),
    ('EXTMATCH', 'MATCHBASE', 'GLOBSTARLONG', 'NODIR', 'NEGATEALL', 'NEGATE'), ('EXTMATCH', 'NODOTDIR', 'IGNORECASE'),
]

NAMES = ['a', 'ab', '.a', 'a/b', '(a)', 'a|b', '!', '[', 'a\\', '\\a', '*']


def make_tree():
    _base, root = env.mknested('c10-')
    for f in ('a', 'b', '.h', 'ab'):
        open(os.path.join(root, f), 'w').close()
    os.mkdir(os.path.join(root, 'd'))
    open(os.path.join(root, 'd', 'a'), 'w').close()
    os.symlink('d', os.path.join(root, 'l'))
    return root


def allowed(exc, text, fnames, api, is_bytes=False):
    """Is this exception a documented error for this input?"""
    if isinstance(exc, P.PatternLimitException):
        return True
    if isinstance(exc, (SyntaxError, LookupError)) and 'RAWCHARS' in fnames and '\\' in text:
        try:
            rawdecode.decode(text, is_bytes)
        except (rawdecode.DecodeSyntax, rawdecode.DecodeRange):
            return isinstance(exc, SyntaxError)
        except rawdecode.DecodeLookup:
            return isinstance(exc, LookupError)
        # BRACE expansion / SPLIT happen after decoding in one pass over the whole text: nothing else may raise
        return False
    if isinstance(exc, ValueError) and api in ('Path.glob', 'Path.rglob'):
        # absolute patterns are refused; any pattern that can denote a leading separator qualifies
        return '/' in text or '\\' in text
    return False


def call(ctx, api, text, fnames, fn, *a, **kw):
    ctx.count('calls')
    ctx.evals()
    try:
        return fn(*a, **kw)
    except Exception as e:  # noqa: BLE001
        ctx.count('exceptions_seen')
        ctx.add_to_set('exception_types', f'{api}:{type(e).__name__}')
        if allowed(e, text if isinstance(text, str) else text.decode('latin-1'), fnames, api, isinstance(text, bytes)):
            ctx.count('documented_errors')
            return None
        fid = None
        if isinstance(e, ValueError) and not isinstance(e, re.error) and '\\U' in (text if isinstance(text, str) else '') \
                and 'RAWCHARS' in fnames:
            fid = 'KF-RAWCHARS-U-RANGE'
        if isinstance(e, re.error) and '!(' in (text if isinstance(text, str) else text.decode('latin-1')):
            fid = 'KF-INVEXT-RESET'
        ctx.disagree(f'{api} raised {type(e).__name__}',
                     {'api': api, 'pattern': text, 'flags': list(fnames), 'exception': repr(e)[:200]}, fid)
        return None


def check_regexes(ctx, api, text, fnames, res):
    if not res:
        return
    for lst in res:
        for r in lst:
            ctx.count('regexes_compiled')
            ctx.evals()
            try:
                re.compile(r)
            except Exception as e:  # noqa: BLE001
                fid = 'KF-INVEXT-RESET' if '!(' in (text if isinstance(text, str) else text.decode('latin-1')) else None
                ctx.disagree(f'{api} returned a regex that does not compile',
                             {'api': api, 'pattern': text, 'flags': list(fnames), 'regex': r, 'exception': repr(e)[:200]},
                             fid)


class ErrWM(WM.WcMatch):
    """WcMatch that remembers what reached on_error."""

    def on_init(self, **kw):
        self.errors = []

    def on_error(self, base, name):
        import sys
        et, ev, _tb = sys.exc_info()
        self.errors.append((os.path.join(base, name), et.__name__ if et else 'unknown', repr(ev)[:120]))
        return None


def exercise(ctx, text, fnames, root, as_bytes):
    fnf = tuple(f for f in fnames if f in FN_FLAGS)
    glf = tuple(f for f in fnames if f in GL_FLAGS)
    ff = 0
    for f in fnf:
        ff |= FLAGN[f]
    gf = 0
    for f in glf:
        gf |= FLAGN[f]
    if as_bytes:
        try:
            pat = text.encode('latin-1')
        except UnicodeEncodeError:
            return
        names = [n.encode() for n in NAMES]
        rootx = os.fsencode(root)
    else:
        pat = text
        names = NAMES
        rootx = root
    check_regexes(ctx, 'fnmatch.translate', pat, fnf, call(ctx, 'fnmatch.translate', pat, fnf, F.translate, pat, flags=ff))
    m = call(ctx, 'fnmatch.compile', pat, fnf, F.compile, pat, flags=ff)
    if m is not None:
        call(ctx, 'fnmatch.compile().filter', pat, fnf, m.filter, names)
    call(ctx, 'fnmatch.fnmatch', pat, fnf, F.fnmatch, names[1], pat, flags=ff)
    call(ctx, 'fnmatch.filter', pat, fnf, F.filter, names, pat, flags=ff)
    call(ctx, 'fnmatch.is_magic', pat, fnf, F.is_magic, pat, flags=ff)
    call(ctx, 'fnmatch.escape', pat, fnf, F.escape, pat)
    check_regexes(ctx, 'glob.translate', pat, glf, call(ctx, 'glob.translate', pat, glf, G.translate, pat, flags=gf))
    gm = call(ctx, 'glob.compile', pat, glf, G.compile, pat, flags=gf)
    if gm is not None:
        call(ctx, 'glob.compile().filter', pat, glf, gm.filter, names)
    call(ctx, 'glob.globmatch', pat, glf, G.globmatch, names[3], pat, flags=gf)
    call(ctx, 'glob.globfilter', pat, glf, G.globfilter, names, pat, flags=gf)
    call(ctx, 'glob.is_magic', pat, glf, G.is_magic, pat, flags=gf)
    call(ctx, 'glob.escape', pat, glf, G.escape, pat)
    if 'FORCEWIN' not in glf or 'FORCEUNIX' in glf:
        call(ctx, 'glob.globmatch(REALPATH)', pat, glf, G.globmatch, names[0], pat, flags=gf | G.REALPATH, root_dir=rootx)
    call(ctx, 'glob.glob', pat, glf, G.glob, pat, flags=gf, root_dir=rootx)
    call(ctx, 'glob.glob(exclude)', pat, glf, G.glob, names[-1], flags=gf, root_dir=rootx, exclude=pat)
    wmf = 0
    for f in fnames:
        if f in WM_FLAGS:
            wmf |= WM_FLAGS[f]
    if len(text) % 2:
        wmf |= WM.RECURSIVE | WM.FILEPATHNAME | WM.DIRPATHNAME | WM.HIDDEN
    # the same pattern inside a list / tuple (sequence plumbing: defaults and types are derived from the elements)
    call(ctx, 'fnmatch.fnmatch([p])', pat, fnf, F.fnmatch, names[1], [pat], flags=ff)
    call(ctx, 'fnmatch.filter((p,))', pat, fnf, F.filter, names, (pat,), flags=ff)
    check_regexes(ctx, 'fnmatch.translate([p, p])', pat, fnf, call(ctx, 'fnmatch.translate([p, p])', pat, fnf, F.translate, [pat, pat], flags=ff))
    call(ctx, 'glob.globmatch([p])', pat, glf, G.globmatch, names[3], [pat], flags=gf)
    call(ctx, 'glob.globfilter((p, p))', pat, glf, G.globfilter, names, (pat, pat), flags=gf)
    check_regexes(ctx, 'glob.translate((p,))', pat, glf, call(ctx, 'glob.translate((p,))', pat, glf, G.translate, (pat,), flags=gf))
    call(ctx, 'glob.glob([p])', pat, glf, G.glob, [pat], flags=gf, root_dir=rootx)
    w = call(ctx, 'WcMatch', pat, fnames, ErrWM, rootx, pat, pat, wmf)
    if w is not None:
        call(ctx, 'WcMatch.match', pat, fnames, w.match)
        if w.errors:
            # the files of the tree are all readable: an exception inside the comparison is a crash that WcMatch hides
            ctx.disagree(f'WcMatch routed {w.errors[0][1]} raised while matching to on_error',
                         {'api': 'WcMatch', 'pattern': text if not as_bytes else {'__bytes__': text}, 'flags': list(fnames),
                          'file': repr(w.errors[0][0]), 'exception': w.errors[0][2]})
    if not as_bytes:
        pf = gf & PATHLIB_MASK
        plf = tuple(f for f in glf if FLAGN[f] & PATHLIB_MASK)
        call(ctx, 'PurePath.match', pat, plf, WP.PurePosixPath('a/b').match, pat, flags=pf)
        call(ctx, 'PurePath.globmatch', pat, plf, WP.PurePosixPath('a/b').globmatch, pat, flags=pf)
        call(ctx, 'PureWindowsPath.match', pat, plf, WP.PureWindowsPath('a/b').match, pat, flags=pf)
        call(ctx, 'Path.glob', pat, plf, lambda: list(WP.Path(root).glob(pat, flags=pf)))
        call(ctx, 'Path.rglob', pat, plf, lambda: list(WP.Path(root).rglob(pat, flags=pf)))


def flagsets_for(ctx, idx, rng):
    yield ROTATION[idx % len(ROTATION)]
    yield ROTATION[(idx // len(ROTATION) + 3) % len(ROTATION)]
    pool = GL_FLAGS + ['RECURSIVE', 'FILEPATHNAME', 'DIRPATHNAME', 'HIDDEN', 'SYMLINKS']
    k = rng.randint(0, 7)
    yield tuple(sorted(rng.sample(pool, k)))


def one_string(ctx, idx, text, root):
    rng = ctx.rng_for('flags', idx, text)
    for fnames in flagsets_for(ctx, idx, rng):
        for as_bytes in (False, True):
            with ctx.case(label=(text, fnames, as_bytes)):
                exercise(ctx, text, fnames, root, as_bytes)
            if any(c in gen.META for c in text):
                ctx.mark_nontrivial((text, fnames, as_bytes))
    if idx % 4000 == 1:
        ctx.sample({'pattern': text, 'flag_sets': [list(f) for f in flagsets_for(ctx, idx, ctx.rng_for('flags', idx, text))]})


def malformed_semantics(ctx):
    """Malformed constructs degrade to literal / empty meaning (a sample of assertions with a known answer)."""
    E = F.EXTMATCH
    cases = []
    for pre in ('', 'a', 'a*'):
        for body in ('a', 'ab', 'a-', '!a', '^a', '', ':alpha:', '[:alpha:'):
            cases.append((pre + '[' + body, (pre.replace('*', 'x') + '[' + body), True, 'unterminated ['))
            cases.append((pre + '[' + body, (pre.replace('*', 'x') + body), False, 'unterminated ['))
        for kind in '@?*+!':
            # after `x*` an unclosed `*(`/`?(` reads as star/question + literal paren, which matches the same text
            cases.append((pre + kind + '(a|b', (pre.replace('*', 'x') + kind + '(a|b') if kind not in '*?' else None, True,
                          'unclosed group'))
    cases += [('[b-a]', 'a', False, 'reversed range'), ('[b-a]', 'b', False, 'reversed range'),
              ('[b-a]', '-', False, 'reversed range'), ('[!b-a]', 'a', True, 'reversed range negated'),
              ('[!b-a]', 'x', True, 'reversed range negated'), ('[b-ac]', 'c', True, 'reversed range + char'),
              ('[b-ac]', 'a', False, 'reversed range + char'), ('a)', 'a)', True, 'stray )'),
              ('a|b', 'a|b', True, 'stray |'), ('|', '|', True, 'stray |'), (')(', ')(', True, 'stray parens'),
              ('!(', '!(', True, 'unclosed !('), ('@()', 'a', False, 'empty group'), ('a@()', 'a', True, 'empty group'),
              ('[]', '[]', True, 'empty brackets'), ('[]a]', ']', True, '] first'), ('[]a]', 'a', True, '] first'),
              ('[!]a]', ']', False, '] first negated'), ('[!]a]', 'b', True, '] first negated')]
    n = 0
    for pat, name, exp, what in cases:
        if name is None or not name:
            continue
        for bts in (False, True):
            p, nm = (pat.encode(), name.encode()) if bts else (pat, name)
            for api, fn in (('fnmatch', lambda: F.fnmatch(nm, p, flags=E | F.DOTMATCH)),
                            ('globmatch', lambda: G.globmatch(nm, p, flags=G.EXTGLOB | G.DOTGLOB))):
                n += 1
                ctx.evals()
                try:
                    got = fn()
                except Exception as e:  # noqa: BLE001
                    got = f'raised {type(e).__name__}'
                if got is not exp:
                    ctx.disagree(f'malformed construct semantics: {what}',
                                 {'api': api, 'pattern': pat, 'name': name, 'bytes': bts, 'expected': exp, 'observed': got})
    ctx.count('malformed_semantics_checked', n)
    ctx.mark_nontrivial('malformed-semantics')


ALPHA_C = '[]-\\ac!'


def bracket_sweep(ctx, maxlen):
    """Everything that can stand inside brackets: `[` + every string over `[ ] - \\ a c !` (light: translate + compile only)."""
    idx = 0
    for n in range(1, maxlen + 1):
        for tup in itertools.product(ALPHA_C, repeat=n):
            idx += 1
            if not ctx.mine(idx):
                continue
            text = '[' + ''.join(tup)
            for fnames, fl_f, fl_g in (((), 0, 0), (('EXTMATCH', 'IGNORECASE'), F.EXTMATCH | F.IGNORECASE, G.EXTGLOB | G.IGNORECASE),
                                       # Windows style: the backslash is a separator too, inside brackets it is spliced in as a class of its own
                                       (('FORCEWIN',), F.FORCEWIN, G.FORCEWIN)):
                for pat in (text, text.encode('ascii')):
                    check_regexes(ctx, 'fnmatch.translate', pat, fnames, call(ctx, 'fnmatch.translate', pat, fnames, F.translate, pat, flags=fl_f))
                    check_regexes(ctx, 'glob.translate', pat, fnames, call(ctx, 'glob.translate', pat, fnames, G.translate, pat, flags=fl_g))
                    call(ctx, 'fnmatch.fnmatch', pat, fnames, F.fnmatch, pat[:0] + (b'a' if isinstance(pat, bytes) else 'a'), pat, flags=fl_f)
            ctx.mark_nontrivial(('bracket', text))
    ctx.count('bracket_sweep_strings', idx)


def win_prefix_sweep(ctx, root):
    """Drive / UNC / device-namespace prefixes whose host, share or device part holds a character that is special in regular
    expressions, under the Windows-mode flag sets (deterministic: independent of the number of shards)."""
    specials = '()[]{}|+?*.^$#&~- \\'
    shapes = ['//{c}/a', '//a/{c}', '//{c}{c}/a/b', '//?/{c}:/x', '//?/UNC/{c}/a/b', '//./{c}/x', '{c}:/x', '//a{c}b/c{c}d/e', '//?/GLOBAL/{c}/x',
              '//{c}/a/*', '//a/{c}/**/b', '\\\\\\\\{c}\\\\a\\\\b']
    fsets = [('FORCEWIN',), ('FORCEWIN', 'CASE'), ('FORCEWIN', 'CASE', 'EXTMATCH'), ('FORCEWIN', 'IGNORECASE', 'GLOBSTAR'),
             ('FORCEWIN', 'CASE', 'MATCHBASE'), ('FORCEWIN', 'CASE', 'NEGATE'), ('FORCEWIN', 'CASE', 'DOTMATCH', 'NODIR')]
    idx = 0
    for c in specials:
        for sh in shapes:
            text = sh.replace('{c}', c)
            for fnames in fsets:
                idx += 1
                if not ctx.mine(idx):
                    continue
                for as_bytes in (False, True):
                    with ctx.case(label=(text, fnames, as_bytes)):
                        exercise(ctx, text, fnames, root, as_bytes)
                    ctx.mark_nontrivial((text, fnames, as_bytes))
                ctx.count('win_prefix_strings')


def group_shape_sweep(ctx, root):
    """Constructs that have a meaning of their own at a segment start (`**`, `***`, `.`, `..`, `!`, `-`, `~`, separators, brackets)
    placed at the start / middle / end of every kind of extended list, closed and unclosed, under the path-mode flag sets."""
    inner = ['**', '**/', '**/a', '***', '***/a', 'a/**', '.', '..', './a', '../', '/', '//', '/a', 'a/', '!', '!a', '-a', '~', '~/a', '[', '[a', '[/]',
             '[a/b]', '\\', '\\/', '', '|', '**|a', 'a|**', '*|**/', '@(**)', '!(**/a)', '{**,a}', '**(', ')']
    frames = ['{k}({x})', '{k}({x}', 'a/{k}({x})', '{k}({x})/b', '{k}(a|{x})', '{k}({x}|b)/c', 'a{k}({x})', '{k}({k}({x}))', '**/{k}({x})', '{k}({x})**']
    fsets = [('EXTMATCH', 'GLOBSTAR'), ('EXTMATCH', 'GLOBSTAR', 'GLOBSTARLONG', 'DOTMATCH'), ('EXTMATCH', 'GLOBSTAR', 'MATCHBASE'),
             ('EXTMATCH', 'GLOBSTAR', 'NEGATE', 'SPLIT'), ('EXTMATCH', 'GLOBSTAR', 'BRACE', 'GLOBTILDE'), ('EXTMATCH',),
             ('EXTMATCH', 'GLOBSTAR', 'FORCEWIN'), ('EXTMATCH', 'GLOBSTAR', 'NODOTDIR', 'NODIR')]
    idx = 0
    for k in '@!*+?':
        for fr in frames:
            for x in inner:
                idx += 1
                if ctx.quick and (idx * 2654435761) % 100 >= 50:
                    continue
                if not ctx.mine(idx):
                    continue
                text = fr.replace('{k}', k).replace('{x}', x)
                for fnames in (fsets[idx % len(fsets)], fsets[(idx // 7) % len(fsets)]):
                    with ctx.case(label=(text, fnames)):
                        exercise(ctx, text, fnames, root, idx % 3 == 0)
                    ctx.mark_nontrivial((text, fnames))
                ctx.count('group_shape_strings')


def group_bracket_separator_sweep(ctx, root):
    """A bracket that holds an escaped separator (no bracket expression in path mode / Windows style) inside every kind of extended
    list, closed and unclosed, with SPLIT on: every splitter and parser falls back to plain text without leaking its internal signals."""
    inner = ['[a\\/b]', '[\\/]', '[a\\\\b]', '[!\\/]x', '[a\\/b', 'a[\\/]|b', '[\\/]|[\\\\]']
    frames = ['{k}({x})', '{k}({x}', 'a/{k}({x})', '{k}({x})|y', '{k}(a|{x})', 'z|{k}({x}|b)/c', '{k}({k}({x}))|w']
    fsets = [('EXTMATCH', 'SPLIT'), ('EXTMATCH', 'SPLIT', 'FORCEWIN'), ('EXTMATCH', 'GLOBSTAR', 'SPLIT', 'NEGATE'), ('EXTMATCH', 'SPLIT', 'BRACE', 'FORCEUNIX')]
    idx = 0
    for k in '@!*+?':
        for fr in frames:
            for x in inner:
                for fnames in fsets:
                    idx += 1
                    if not ctx.mine(idx):
                        continue
                    text = fr.replace('{k}', k).replace('{x}', x)
                    with ctx.case(label=(text, fnames)):
                        exercise(ctx, text, fnames, root, idx % 2 == 0)
                    ctx.count('group_bracket_separator_strings')


def negated_group_brace_sweep(ctx, root):
    """Literal braces (and other text that looks like a replacement field or a regex) behind a negated group in the same segment."""
    tails = ['{', '}', '{}', 'x{1,2}', '[{}]', '{0}', '{a', 'a}', '{{', '}}', '%s', '{!r}', '\\{', '{:d}', '$', '\\g<0>']
    heads = ['!(a)', '!(a|b)', 'x!(a)', '!(a)!(b)', '@(!(a))', 'd/!(a)', '!(*)']
    fsets = [('EXTMATCH',), ('EXTMATCH', 'BRACE'), ('EXTMATCH', 'GLOBSTAR', 'DOTMATCH'), ('EXTMATCH', 'SPLIT', 'NEGATE'), ('EXTMATCH', 'FORCEWIN')]
    idx = 0
    for h in heads:
        for t in tails:
            for fnames in fsets:
                idx += 1
                if not ctx.mine(idx):
                    continue
                for text in (h + t, h + t + '/b'):
                    with ctx.case(label=(text, fnames)):
                        exercise(ctx, text, fnames, root, idx % 2 == 0)
                    ctx.count('negated_group_brace_strings')


def rawchars_value_sweep(ctx, root):
    """Every octal escape value 0..0o777 and every hex escape value, alone / inside a bracket / as a range end, str and bytes,
    under RAWCHARS: a complete escape never raises (values above the type's range fold or are documented errors)."""
    idx = 0
    for v in list(range(0, 0o1000, 1)):
        for form in ('\\%o', '[\\%o]', 'a\\%03o*', '[a-\\%o]'):
            idx += 1
            if ctx.quick and v % 7 and v not in (0o377, 0o400, 0o777, 0o501, 0o200, 0o177):
                continue
            if not ctx.mine(idx):
                continue
            text = form % v
            for as_bytes in (False, True):
                with ctx.case(label=(text, as_bytes)):
                    exercise(ctx, text, ('RAWCHARS', 'EXTMATCH'), root, as_bytes)
            ctx.count('rawchars_value_strings')
    for text in ['\\U%08X' % v for v in (0, 0x41, 0xD800, 0xDFFF, 0xFFFF, 0x10FFFF, 0x110000, 0x7FFFFFFF, 0x80000000, 0xFFFFFFFF, 0xFFFFFFFE)] + \
            ['[\\U%08x]' % v for v in (0x10FFFF, 0x110000, 0x80000000, 0xFFFFFFFF)] + ['\\u%04X' % v for v in (0, 0xD800, 0xDC00, 0xFFFF)]:
        idx += 1
        if not ctx.mine(idx):
            continue
        for as_bytes in (False, True):
            with ctx.case(label=(text, as_bytes)):
                exercise(ctx, text, ('RAWCHARS',), root, as_bytes)
        ctx.count('rawchars_value_strings')
    for v in range(256):
        idx += 1
        if not ctx.mine(idx):
            continue
        for form in ('\\x%02x', '[\\x%02X-\\xff]'):
            text = form % v
            for as_bytes in (False, True):
                with ctx.case(label=(text, as_bytes)):
                    exercise(ctx, text, ('RAWCHARS',), root, as_bytes)
            ctx.count('rawchars_value_strings')


def tilde_sweep(ctx, root):
    """User-folder forms whose name part is unusual (null, non-ASCII, surrogate, magic characters, unknown user)."""
    texts = ['~', '~/a', '~root', '~nosuchuser-zz', '~a\x00b', '~\xe9', '~\xff/x', '~*', '~[r]oot', '~root*', '!~', '!~/a', '-~root', '~~', '~/', '~\\',
             '~a/../b', '~{root,x}', '~root|~', '~\x00', '\\~', '[~]', '~\n']
    fsets = [('GLOBTILDE',), ('GLOBTILDE', 'REALPATH'), ('GLOBTILDE', 'REALPATH', 'NEGATE'), ('GLOBTILDE', 'REALPATH', 'NEGATE', 'MINUSNEGATE'),
             ('GLOBTILDE', 'REALPATH', 'BRACE', 'SPLIT'), ('GLOBTILDE', 'REALPATH', 'FORCEWIN'), ('GLOBTILDE', 'REALPATH', 'RAWCHARS'),
             ('GLOBTILDE', 'REALPATH', 'MATCHBASE', 'GLOBSTAR'), ('GLOBTILDE', 'NODIR', 'REALPATH')]
    idx = 0
    for text in texts:
        for fnames in fsets:
            idx += 1
            if not ctx.mine(idx):
                continue
            for as_bytes in (False, True):
                with ctx.case(label=(text, fnames, as_bytes)):
                    exercise(ctx, text, fnames, root, as_bytes)
                ctx.mark_nontrivial((text, fnames, as_bytes))
            ctx.count('tilde_strings')


def group_sequence_sweep(ctx, root):
    """Two or three extended groups in sequence and nested, every combination of kinds (the bookkeeping of pending `!(` groups
    across sibling and nested lists)."""
    shapes = ['{a}(a){b}({c}(b))', '{a}(a){b}(x|{c}(b))c', '{a}({b}(a)){c}(b)', '{a}(a){b}(b){c}(c)', '{a}({b}({c}(a)))', '{a}(a|{b}(b)|{c}(c))d',
              'x/{a}(a){b}({c}(b))/y', '{a}(a){b}({c}(b)', '{a}({b}(a){c}(b))', '{a}(a)/{b}({c}(b))']
    fsets = [('EXTMATCH',), ('EXTMATCH', 'GLOBSTAR', 'DOTMATCH'), ('EXTMATCH', 'NEGATE'), ('EXTMATCH', 'MATCHBASE', 'NODIR')]
    idx = 0
    for a in '@!*+?':
        for b in '@!*+?':
            for c in '@!*+?':
                for sh in shapes:
                    idx += 1
                    if ctx.quick and '!' not in (a, b, c) and (idx * 2654435761) % 100 >= 25:
                        continue
                    if not ctx.mine(idx):
                        continue
                    text = sh.replace('{a}', a).replace('{b}', b).replace('{c}', c)
                    fnames = fsets[idx % len(fsets)]
                    with ctx.case(label=(text, fnames)):
                        exercise(ctx, text, fnames, root, idx % 4 == 0)
                    ctx.mark_nontrivial((text, fnames))
                    ctx.count('group_sequence_strings')


def strings(alpha, n):
    for tup in itertools.product(alpha, repeat=n):
        yield ''.join(tup)


def mutate_tokens(rng, text):
    toks = list(text)
    if not toks:
        return text
    op = rng.randrange(3)
    i = rng.randrange(len(toks))
    if op == 0:
        del toks[i]
    elif op == 1:
        toks.insert(i, toks[i])
    else:
        j = rng.randrange(len(toks))
        toks[i], toks[j] = toks[j], toks[i]
    return ''.join(toks)


def run(ctx):
    quick = ctx.quick
    root = make_tree()
    try:
        if ctx.shard == 0:
            malformed_semantics(ctx)
        else:
            ctx.count('malformed_semantics_checked', 0)
        bracket_sweep(ctx, 5 if quick else 6)
        win_prefix_sweep(ctx, root)
        group_shape_sweep(ctx, root)
        group_sequence_sweep(ctx, root)
        group_bracket_separator_sweep(ctx, root)
        negated_group_brace_sweep(ctx, root)
        rawchars_value_sweep(ctx, root)
        tilde_sweep(ctx, root)

        def exhaustive():
            idx = 0
            plan = [(ALPHA_A, 4 if quick else 5, 100), (ALPHA_B, 3 if quick else 4, 100)]
            if not quick:
                plan.append((ALPHA_A, 6, 8))
            for alpha, maxlen, pct in plan:
                for n in range(1 if pct == 100 else maxlen, maxlen + 1):
                    for text in strings(alpha, n):
                        idx += 1
                        if pct < 100 and (idx * 2654435761) % 100 >= pct:
                            continue
                        if not ctx.mine(idx):
                            continue
                        if ctx.out_of_time():
                            break
                        one_string(ctx, idx, text, root)

        def random_strings():
            # random long strings, RAWCHARS pieces, nested groups (bounded nesting 8) and token mutations of valid patterns
            k = 0
            limit = 150 if quick else 10 ** 9
            pieces = list(ALPHA_A + ALPHA_B) + ['\\UFFFFFFFF', '\\U80000000', '\\U7FFFFFFF', '\\U0010FFFF', '\\uFFFF', '\\uD800', '\\400', '\\777', '\\501', '\\377', '\\xff', '\\x80', '\\0', '\\8', '\\x41', '\\x4', '\\101', '\\u0041', '\\U00000041', '\\U00110000', '\\N{DIGIT ONE}',
                                              '\\N{', '\\N{NOPE}', '@(', '!(', '*(', '+(', '?(', '[!', '[:alpha:]', '[[:alpha:]]',
                                              '**', '***', '//', '{a,b}', '{1..3}', '~', '-', 'b', '.', '..',
                                              # text that looks like regular-expression syntax must stay plain text
                                              '(?#)', '[(?#)]', '(?:', '(?i)', '(?=a)', '\\Z', '$', '^', '[^', '#', '(?P<n>', '\\1', '{2}', '+?', '[a&&b]', '[a||b]', '[a--b]', '[~~a]']
            while k < limit and not ctx.out_of_time():
                k += 1
                rng = ctx.rng_for('rand', ctx.shard, k)
                if k % 3 == 0:
                    toks = gen.rand_tokens(rng, maxtok=rng.randint(1, 7), depth=rng.randint(0, 3), alpha='ab./')
                    text = gen.ser(toks)
                    for _ in range(rng.randint(1, 3)):
                        text = mutate_tokens(rng, text)
                elif k % 3 == 1:
                    depth = rng.randint(1, 8)
                    text = ''.join(rng.choice('@!*+?') + '(' + rng.choice(['', 'a', 'a|', '*']) for _ in range(depth))
                    text += rng.choice(['', 'a', '*', '/']) + ')' * rng.randint(0, depth) + rng.choice(['', 'b', '*', '@(a)'])
                else:
                    text = ''.join(rng.choice(pieces) for _ in range(rng.randint(1, 14)))[:40]
                one_string(ctx, 10 ** 7 + k, text, root)
            ctx.count('random_strings', k)

        # the bounded parts first: in the quick tier the random strings are a fixed number per shard, the enumeration takes
        # what is left of the budget; in the thorough tier the random strings run until the budget ends
        for part in ((random_strings, exhaustive) if quick else (exhaustive, random_strings)):
            part()
    finally:
        shutil.rmtree(root[:-len('/w/x/y/root')], ignore_errors=True)


def replay(ctx, w):
    root = make_tree()
    try:
        text = w['pattern']
        if isinstance(text, bytes):
            exercise(ctx, text.decode('latin-1'), tuple(w['flags']), root, True)
        else:
            exercise(ctx, text, tuple(w['flags']), root, False)
            exercise(ctx, text, tuple(w['flags']), root, True)
        if 'name' in w:
            malformed_semantics(ctx)
    finally:
        shutil.rmtree(root[:-len('/w/x/y/root')], ignore_errors=True)
    return ctx.violations or None
