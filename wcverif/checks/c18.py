"""C18 - bytes and str inputs behave identically (DESIGN.md section 5, C18)."""
import os

from .. import gen, refmodel as R, tree as T
from ..composite import rand_composite
from ..common import F, G, flags_of
from wcmatch import wcmatch as WM

SPEC = {
    'rule': ('every public function is called in pairs f(x) / f(encode(x)) on ASCII inputs: single patterns from the C01/C02 '
             'generators and composite calls (lists, exclusions, SPLIT, BRACE) under sampled flag sets including RAWCHARS, '
             'IGNORECASE and FORCEWIN, over name universes (match / filter / compiled matcher answers must be equal, translate '
             'must return the encoded regexes, escape the encoded escape, is_magic the same answer); glob / iglob / WcMatch are '
             'run on generated trees with str and bytes roots (encoded paths in the same order); every single byte 0x80-0xff is '
             'matched against every POSIX class and bracket form (C-locale table, ranges crossing 0x7f/0x80, `?`/`*` per byte); '
             'mixed str/bytes arguments must raise TypeError. A case is one (call, flag set); it is non-trivial when the str '
             'answers contain both outcomes or a non-empty result list.'),
    'bounds': {'quick': {'random_patterns_per_shard': 250, 'trees_per_shard': 10}, 'thorough': {'random': 'until the time budget'}},
    'floor': {'quick': 40000, 'thorough': 400000},
    'required_counters': ['pair_checks', 'flag_pair_sweep_pairs', 'translate_pairs', 'escape_pairs', 'tree_pairs', 'high_byte_evaluations',
                          'mixed_type_checks', 'composite_pairs'],
    'budget': {'quick': 45, 'thorough': 480},
    'shard_timeout': {'quick': 400, 'thorough': 1500},
    'assumptions': ['bytes are Latin-1 code units; ASCII inputs encode with ascii',
                    'WcMatch routes comparison errors to on_error (C15), so a mixed-type WcMatch is only required not to return files'],
}

FN_OPT = ['CASE', 'IGNORECASE', 'DOTMATCH', 'FORCEWIN', 'FORCEUNIX', 'RAWCHARS', 'NEGATE', 'MINUSNEGATE', 'NEGATEALL']
GL_OPT = FN_OPT + ['GLOBSTAR', 'GLOBSTARLONG', 'MATCHBASE', 'NODIR', 'NODOTDIR']


def enc(x):
    if isinstance(x, str):
        return x.encode('latin-1')
    if isinstance(x, (list, tuple)):
        return type(x)(enc(y) for y in x)
    return x


def outcome(fn):
    try:
        return fn()
    except Exception as e:  # noqa: BLE001
        return ('raised', type(e).__name__)


def pair(ctx, what, wit, fs, fb, conv=enc):
    a = outcome(fs)
    b = outcome(fb)
    ctx.evals()
    ctx.count('pair_checks')
    exp = a if isinstance(a, tuple) and a and a[0] == 'raised' else conv(a)
    if b != exp:
        ctx.disagree(f'{what}: bytes call differs from str call', dict(wit, str_result=repr(a)[:300], bytes_result=repr(b)[:300]))
        return None
    return a


def check_call(ctx, mod, patterns, exclude, fnames, names, key):
    flags = flags_of(fnames)
    kw = {'exclude': exclude} if exclude is not None else {}
    kwb = {'exclude': enc(exclude)} if exclude is not None else {}
    wit = {'api': mod.__name__.split('.')[-1], 'patterns': patterns, 'exclude': exclude, 'flags': sorted(fnames)}
    bp, bn = enc(patterns), enc(names)
    one = mod.fnmatch if mod is F else mod.globmatch
    flt = mod.filter if mod is F else mod.globfilter
    a = pair(ctx, 'filter', wit, lambda: flt(names, patterns, flags=flags, **kw), lambda: flt(bn, bp, flags=flags, **kwb))
    pair(ctx, 'compile().filter', wit, lambda: mod.compile(patterns, flags=flags, **kw).filter(names),
         lambda: mod.compile(bp, flags=flags, **kwb).filter(bn))
    for n in names[:12]:
        pair(ctx, 'one-shot match', dict(wit, name=n), lambda: one(n, patterns, flags=flags, **kw), lambda: one(enc(n), bp, flags=flags, **kwb))
    t = pair(ctx, 'translate', wit, lambda: mod.translate(patterns, flags=flags, **kw), lambda: mod.translate(bp, flags=flags, **kwb),
             conv=lambda r: (enc(r[0]), enc(r[1])))
    ctx.count('translate_pairs')
    if isinstance(patterns, str):
        pair(ctx, 'escape', wit, lambda: mod.escape(patterns), lambda: mod.escape(bp))
        pair(ctx, 'is_magic', wit, lambda: mod.is_magic(patterns, flags=flags), lambda: mod.is_magic(bp, flags=flags), conv=lambda x: x)
        ctx.count('escape_pairs')
        if mod is G:
            pair(ctx, 'escape(unix=False)', wit, lambda: G.escape(patterns, unix=False), lambda: G.escape(bp, unix=False))
    if isinstance(a, list) and 0 < len(a) < len(names):
        ctx.mark_nontrivial(key)
    _ = t


def high_bytes(ctx):
    """Single bytes 0x80-0xff against every POSIX class / bracket form: C-locale table, per byte."""
    n = 0
    forms = []
    for cls in R.POSIX_NAMES:
        forms.append((f'[[:{cls}:]]', lambda b, c=cls: False))
        forms.append((f'[![:{cls}:]]', lambda b, c=cls: True))
        forms.append((f'[^[:{cls}:]]', lambda b, c=cls: True))
        forms.append((f'[[:{cls}:]\\x90]', lambda b, c=cls: b == 0x90))
    forms += [
        ('[\\x7e-\\x81]', lambda b: 0x7e <= b <= 0x81), ('[!\\x7e-\\x81]', lambda b: not (0x7e <= b <= 0x81)),
        ('[\\x80-\\xff]', lambda b: True), ('[a-\\xe9]', lambda b: b <= 0xe9), ('[\\xe9]', lambda b: b == 0xe9),
        ('[!\\xe9]', lambda b: b != 0xe9), ('?', lambda b: True), ('*', lambda b: True), ('\\xe9', lambda b: b == 0xe9),
        ('[\\xc0-\\xdf]', lambda b: 0xc0 <= b <= 0xdf),
        # brackets whose ranges are all reversed: nothing / every single byte
        ('[z-a]', lambda b: False), ('[!z-a]', lambda b: True), ('[^9-0]', lambda b: True), ('[z-a9-0]', lambda b: False),
        ('[!z-a9-0]', lambda b: True), ('[\\xff-\\x80]', lambda b: False), ('[!\\xff-\\x80]', lambda b: True),
    ]
    for fi, (pat, pred) in enumerate(forms):
        if not ctx.mine(fi):
            continue
        for mod, fl in ((F, F.RAWCHARS | F.DOTMATCH), (G, G.RAWCHARS | G.DOTGLOB), (F, F.RAWCHARS | F.DOTMATCH | F.IGNORECASE)):
            m = outcome(lambda: mod.compile(pat.encode('ascii'), flags=fl))
            if isinstance(m, tuple):
                ctx.disagree('bytes bracket form failed to compile', {'pattern': pat, 'observed': m})
                continue
            for b in range(0x80, 0x100):
                exp = pred(b)
                if fl & F.IGNORECASE and pat in ('[\\xe9]', '\\xe9', '[!\\xe9]', '[a-\\xe9]', '[\\xc0-\\xdf]'):
                    continue   # Latin-1 letters have case partners under re.I on bytes? (ASCII-only for bytes) - not asserted
                got = m.match(bytes([b]))
                n += 1
                if got is not exp:
                    ctx.disagree('non-ASCII byte against a bracket / POSIX form', {'pattern': pat, 'byte': b, 'expected': exp,
                                                                                  'observed': got, 'api': mod.__name__})
                    break
            # two-byte sequences: `?` is one byte
            if pat == '?':
                for seq, exp in ((b'\xc3\xa9', False),):
                    if m.match(seq) is not exp:
                        ctx.disagree('`?` does not operate per byte', {'pattern': pat, 'name': repr(seq)})
        ctx.mark_nontrivial(('hb', pat))
    ctx.evals(n)
    ctx.count('high_byte_evaluations', n)


def drive_text_pairs(ctx):
    """escape() / is_magic() / matching of drive, UNC and device-namespace texts (keywords in any case, magic characters inside the
    prefix, both separator spellings): the bytes call is the encoded str call."""
    from .c09 import DRIVES
    tails = ['a', 'a*b', 'x-y', '!z', '~', '[a]', '']
    n = 0
    for di, d in enumerate(DRIVES + ['//?/UNC/my-server/share/', '\\\\?\\UNC\\my-server\\sh(a)re\\', '//?/GLOBAL/na~me/', '//./Unc/a-b/c!d/']):
        if not ctx.mine(di):
            continue
        for tail in tails:
            # three spellings: forward slashes, single backslashes (escapes), doubled backslashes (the separator as a pattern writes it)
            for text in (d + tail, (d + tail).replace('/', '\\'), (d + tail).replace('/', '\\\\')):
                wit = {'api': 'glob', 'patterns': text, 'flags': ['FORCEWIN'], 'mode': 'drive-texts'}
                for fl in (G.FORCEWIN, G.FORCEWIN | G.NEGATE | G.MINUSNEGATE, G.FORCEWIN | G.BRACE | G.SPLIT | G.EXTGLOB, G.FORCEWIN | G.CASE):
                    pair(ctx, 'drive text: escape(unix=False)', wit, lambda: G.escape(text, unix=False), lambda: G.escape(enc(text), unix=False))
                    pair(ctx, 'drive text: is_magic', wit, lambda: G.is_magic(text, flags=fl), lambda: G.is_magic(enc(text), flags=fl), conv=lambda x: x)
                    pair(ctx, 'drive text: translate', wit, lambda: G.translate(text, flags=fl), lambda: G.translate(enc(text), flags=fl),
                         conv=lambda r: (enc(r[0]), enc(r[1])))
                    pair(ctx, 'drive text: self match of the escape', wit, lambda: G.globmatch(text, G.escape(text, unix=False), flags=fl),
                         lambda: G.globmatch(enc(text), G.escape(enc(text), unix=False), flags=fl), conv=lambda x: x)
                    n += 4
    ctx.count('drive_text_pairs', n)


def high_byte_tree(ctx):
    """File names and patterns with bytes >= 0x80 through the file-system entry points: the walker, given bytes, treats every
    byte as one Latin-1 code unit, exactly like the matcher does (glob == the entries globmatch accepts), WcMatch likewise."""
    from .. import env
    import shutil
    _base, root = env.mknested('c18hb-')
    broot = os.fsencode(root)
    files = [b'caf\xc3\xa9.txt', b'na\xef', b'd\xc3\xa9p/x.txt', b'd\xc3\xa9p/\xff.txt', b'plain', b'\xe9', b'\x80\x81', b'sub/caf\xc3\xa9.txt', b'sub/\xa9']
    try:
        for fb in files:
            p = os.path.join(broot, fb)
            os.makedirs(os.path.dirname(p), exist_ok=True)
            open(p, 'wb').close()
        entries = set()
        for fb in files:
            parts = fb.split(b'/')
            for i in range(1, len(parts) + 1):
                entries.add(b'/'.join(parts[:i]))
        entries = sorted(entries)
        isdir = {e: os.path.isdir(os.path.join(broot, e)) for e in entries}
        pats = [(b'caf\xc3\xa9.*', ()), (b'd\xc3\xa9p/*.txt', ()), (b'na\xef*', ()), (b'*\xa9*', ()), (b'**/x.txt', ('GLOBSTAR',)),
                (b'caf??.txt', ()), (b'caf?.txt', ()), (b'[\xc3]*', ()), (b'[!\xc3]*', ()), (b'{caf\xc3\xa9.txt,plain}', ('BRACE',)),
                (b'na\xef|plain', ('SPLIT',)), (b'\xe9', ()), (b'?', ()), (b'??', ()), (b'**/*\xa9*', ('GLOBSTAR',)), (b'*/\xff.txt', ()),
                (b'@(na\xef|\xe9)', ('EXTMATCH',)), (b'd\xc3\xa9p/', ()), (b'**/caf\xc3\xa9.txt', ('GLOBSTAR',)), (b'[\x80-\xff]*', ()),
                (b'*[![:ascii:]]', ()), (b'd\xc3\xa9p/**', ('GLOBSTAR',)), (b'sub/[\xa0-\xaf]', ())]
        for pi, (pat, fnames) in enumerate(pats):
            if not ctx.mine(pi):
                continue
            flags = flags_of(fnames)
            wit = {'pattern': repr(pat), 'flags': list(fnames), 'mode': 'high-byte-tree', 'tree': [repr(x) for x in files]}
            try:
                got = sorted(x.rstrip(b'/') for x in G.glob(pat, flags=flags, root_dir=broot))
                got_i = sorted(x.rstrip(b'/') for x in G.iglob(pat, flags=flags, root_dir=broot))
                m = G.compile(pat, flags=flags)
                want = sorted(e for e in entries if m.match(e + b'/' if isdir[e] else e))
                if pat.endswith(b'/'):
                    want = [e for e in want if isdir[e]]
            except Exception as e:  # noqa: BLE001
                ctx.disagree(f'bytes glob with non-ASCII bytes raised {type(e).__name__}', dict(wit, exception=repr(e)[:200]))
                continue
            ctx.evals()
            ctx.count('high_byte_tree_checks')
            if got != want or got_i != want:
                ctx.disagree('bytes glob with non-ASCII bytes differs from the entries the bytes matcher accepts (per-byte Latin-1 reading)',
                             dict(wit, glob=[repr(x) for x in got[:10]], matcher_accepts=[repr(x) for x in want[:10]]))
            if b'/' not in pat and b'**' not in pat:
                wm = outcome(lambda: sorted(os.path.relpath(x, broot) for x in WM.WcMatch(broot, pat, None, WM.RECURSIVE | (WM.BRACE if 'BRACE' in fnames else 0) | (WM.EXTMATCH if 'EXTMATCH' in fnames else 0)).match()))
                mm = F.compile(pat, flags=F.DOTMATCH | F.SPLIT | F.NEGATE | flags_of([x for x in fnames if x in ('BRACE', 'EXTMATCH')]))
                want_w = sorted(fb for fb in files if mm.match(fb.split(b'/')[-1]))
                ctx.count('high_byte_tree_checks')
                if wm != want_w:
                    ctx.disagree('bytes WcMatch with non-ASCII bytes differs from the base names the bytes matcher accepts',
                                 dict(wit, wcmatch=repr(wm)[:200], matcher_accepts=[repr(x) for x in want_w[:10]]))
            ctx.mark_nontrivial(('hbt', pat))
    finally:
        shutil.rmtree(root[:-len('/w/x/y/root')], ignore_errors=True)


MIXED_PATTERNS = [('a', ()), ('*', ()), ('a/b', ()), ('d/a', ()), ('[ab]', ()), ('**/a', ('GLOBSTAR',)), ('@(a)', ('EXTMATCH',)),
                  ('a|b', ('SPLIT',)), ('{a,b}', ('BRACE',)), ('!a', ('NEGATE',)), ('!a', ('NEGATE', 'NEGATEALL')), ('*|!a', ('NEGATE', 'SPLIT')),
                  ('.', ()), ('d/', ()), ('?', ('DOTMATCH',)), ('A', ('IGNORECASE',)), ('a', ('FORCEWIN',)), ('\\a', ()), ('[[:alpha:]]', ())]


def mixed_types(ctx, root):
    n = 0
    broot = os.fsencode(root)
    for p, fnames in MIXED_PATTERNS:
        bp = p.encode('ascii')
        ff = flags_of([x for x in fnames if x != 'GLOBSTAR'])
        gf = flags_of(list(fnames))
        cases = [
            ('fnmatch(str name, bytes pattern)', lambda: F.fnmatch('a', bp, flags=ff)),
            ('fnmatch(bytes name, str pattern)', lambda: F.fnmatch(b'a', p, flags=ff)),
            ('filter(str names, bytes pattern)', lambda: F.filter(['a', 'b'], bp, flags=ff)),
            ('filter(bytes names, str pattern)', lambda: F.filter([b'a'], p, flags=ff)),
            ('compile(bytes).match(str)', lambda: F.compile(bp, flags=ff).match('a')),
            ('compile(str).filter(bytes)', lambda: F.compile(p, flags=ff).filter([b'a', b'b'])),
            ('globmatch(str, bytes)', lambda: G.globmatch('a', bp, flags=gf)),
            ('globmatch(bytes, str)', lambda: G.globmatch(b'a', p, flags=gf)),
            ('globfilter(str, bytes)', lambda: G.globfilter(['a'], bp, flags=gf)),
            ('glob.compile(str).match(bytes)', lambda: G.compile(p, flags=gf).match(b'd/a')),
            ('globmatch REALPATH (str name, bytes pattern)', lambda: G.globmatch('a', bp, flags=gf | G.REALPATH, root_dir=root)),
            ('globmatch REALPATH (bytes name and pattern, str root)', lambda: G.globmatch(b'a', bp, flags=gf | G.REALPATH, root_dir=root)),
            ('globmatch REALPATH (str name and pattern, bytes root)', lambda: G.globmatch('a', p, flags=gf | G.REALPATH, root_dir=broot)),
            ('globfilter REALPATH (str names, bytes pattern and root)', lambda: G.globfilter(['a', 'd'], bp, flags=gf | G.REALPATH, root_dir=broot)),
            ('globmatch REALPATH (bytes name and pattern, empty str root)', lambda: G.globmatch(b'a', bp, flags=gf | G.REALPATH, root_dir='')),
            ('globmatch REALPATH (str name and pattern, empty bytes root)', lambda: G.globmatch('a', p, flags=gf | G.REALPATH, root_dir=b'')),
            ('globfilter REALPATH (bytes, empty str root)', lambda: G.globfilter([b'a'], bp, flags=gf | G.REALPATH, root_dir='')),
            ('glob(bytes pattern, str root)', lambda: G.glob(bp, flags=gf, root_dir=root)),
            ('glob(str pattern, bytes root)', lambda: G.glob(p, flags=gf, root_dir=broot)),
            ('iglob(bytes pattern, str root)', lambda: list(G.iglob(bp, flags=gf, root_dir=root))),
        ]
        only_exclusions = 'NEGATE' in fnames and 'NEGATEALL' not in fnames and p.startswith('!') and '|' not in p
        for what, fn in cases:
            r = outcome(fn)
            n += 1
            ctx.evals()
            if r != ('raised', 'TypeError'):
                fid = None
                if only_exclusions and r in (False, []):
                    fid = 'KF-MIXED-TYPE-EXCLUSION-ONLY'
                ctx.disagree(f'mixed str/bytes arguments do not raise TypeError: {what}',
                             {'call': what, 'pattern': p, 'flags': list(fnames), 'observed': repr(r)[:200], 'mode': 'mixed-types'}, fid)
    # WcMatch routes comparison errors to on_error: it must at least not return files
    for what, fn in (('WcMatch(str root, bytes pattern)', lambda: WM.WcMatch(root, b'*').match()),
                     ('WcMatch(bytes root, str pattern)', lambda: WM.WcMatch(os.fsencode(root), '*').match())):
        r = outcome(fn)
        n += 1
        ctx.evals()
        if r != ('raised', 'TypeError') and r != []:
            ctx.disagree(f'mixed str/bytes WcMatch returns an answer: {what}', {'call': what, 'observed': repr(r)[:200]})
    ctx.count('mixed_type_checks', n)
    ctx.mark_nontrivial('mixed')


def tree_pairs(ctx, rng, k):
    spec = T.gen_spec(rng, max_entries=12, link_kinds=['file', 'dir', 'dangling', 'sibling', 'hidden'])
    with T.Tree(spec, 'c18-') as tr:
        root = tr.root
        broot = os.fsencode(root)
        # `.` / `..` as the first segment (the walker compares them with its own str / bytes constants): the tree root sits in a
        # private parent directory, so `..` shows that parent alone
        base = os.path.basename(root)
        for pat in ('..', '../*', '../*/*', '../' + base + '/*', '.', './*', './../' + base + '/*', '../.'):
            for fn in (['MARK'], ['GLOBSTAR', 'DOTGLOB'], ['SCANDOTDIR', 'NODIR']):
                flags = flags_of(fn)
                wit = {'api': 'glob.glob', 'pattern': pat, 'flags': fn, 'tree': spec, 'mode': 'dot-segments'}
                pair(ctx, 'glob on a tree (dot segments first)', wit, lambda: G.glob(pat, flags=flags, root_dir=root),
                     lambda: G.glob(enc(pat), flags=flags, root_dir=broot))
                pair(ctx, 'iglob on a tree (dot segments first)', wit, lambda: list(G.iglob(pat, flags=flags, root_dir=root)),
                     lambda: list(G.iglob(enc(pat), flags=flags, root_dir=broot)))
                ctx.count('dot_segment_pairs', 2)
        for j in range(8):
            toks = gen.rand_path_tokens(rng, maxseg=rng.randint(1, 3), alpha='abA.', depth=1)
            if gen.ambiguous_adjacency(toks) or (toks and toks[0][0] == 'sep'):
                continue
            pat = gen.ser(toks)
            fn = ['EXTMATCH'] + [f for f in ('GLOBSTAR', 'DOTMATCH', 'MARK', 'NODIR', 'MATCHBASE', 'IGNORECASE', 'SCANDOTDIR', 'NOUNIQUE') if rng.random() < 0.3]
            flags = flags_of(fn)
            wit = {'api': 'glob.glob', 'pattern': pat, 'flags': fn, 'tree': spec}
            a = pair(ctx, 'glob on a tree', wit, lambda: G.glob(pat, flags=flags, root_dir=root),
                     lambda: G.glob(enc(pat), flags=flags, root_dir=broot))
            pair(ctx, 'iglob on a tree', wit, lambda: list(G.iglob([pat, '*'], flags=flags, root_dir=root)),
                 lambda: list(G.iglob([enc(pat), b'*'], flags=flags, root_dir=broot)))
            cands = tr.candidates(3)[:40]
            pair(ctx, 'globfilter REALPATH on a tree', wit, lambda: G.globfilter(cands, pat, flags=flags | G.REALPATH, root_dir=root),
                 lambda: G.globfilter(enc(cands), enc(pat), flags=flags | G.REALPATH, root_dir=broot))
            ctx.count('tree_pairs', 3)
            if a:
                ctx.mark_nontrivial(('tree', k, j))
        for j in range(4):
            ftoks = gen.rand_tokens(rng, maxtok=3, depth=1, alpha='abA.')
            fpat = gen.ser(ftoks) + rng.choice(['', '|*.d', '|!a'])
            wfl = WM.RECURSIVE | WM.EXTMATCH | (WM.HIDDEN if rng.random() < 0.5 else 0) | (WM.SYMLINKS if rng.random() < 0.3 and not tr.has_dir_cycle() else 0) | \
                (WM.FILEPATHNAME | WM.GLOBSTAR if rng.random() < 0.3 else 0) | (WM.IGNORECASE if rng.random() < 0.3 else 0) | \
                (WM.DIRPATHNAME if rng.random() < 0.4 else 0) | (WM.MATCHBASE if rng.random() < 0.2 else 0) | (WM.BRACE if rng.random() < 0.2 else 0)
            wit = {'api': 'WcMatch', 'pattern': fpat, 'flags': wfl, 'tree': spec}
            pair(ctx, 'WcMatch on a tree', wit, lambda: WM.WcMatch(root, fpat, 'b', wfl).match(),
                 lambda: WM.WcMatch(broot, enc(fpat), b'b', wfl).match())
            ctx.count('tree_pairs')
        # omitted / None / empty patterns take their type from the root
        wfl0 = WM.RECURSIVE | WM.HIDDEN
        for what, sa, ba in (
                ('file pattern omitted', lambda: WM.WcMatch(root, flags=wfl0).match(), lambda: WM.WcMatch(broot, flags=wfl0).match()),
                ('file pattern None', lambda: WM.WcMatch(root, None, None, wfl0).match(), lambda: WM.WcMatch(broot, None, None, wfl0).match()),
                ('file pattern empty', lambda: WM.WcMatch(root, '', 'b', wfl0).match(), lambda: WM.WcMatch(broot, b'', b'b', wfl0).match()),
                ('exclude pattern omitted', lambda: WM.WcMatch(root, '*', flags=wfl0).match(), lambda: WM.WcMatch(broot, b'*', flags=wfl0).match()),
                ('exclude pattern empty', lambda: WM.WcMatch(root, 'a*|b', '', wfl0).match(), lambda: WM.WcMatch(broot, b'a*|b', b'', wfl0).match()),
                # the spelling of the root (a closing separator, two of them, a `.` segment) comes back in the results alike
                ('root with a closing separator', lambda: WM.WcMatch(root + '/', '*', None, wfl0).match(), lambda: WM.WcMatch(broot + b'/', b'*', None, wfl0).match()),
                ('root with two closing separators', lambda: WM.WcMatch(root + '//', '*', None, wfl0 | WM.FILEPATHNAME).match(),
                 lambda: WM.WcMatch(broot + b'//', b'*', None, wfl0 | WM.FILEPATHNAME).match()),
                ('root ending in /./', lambda: WM.WcMatch(root + '/./', None, 'b', wfl0 | WM.DIRPATHNAME).match(),
                 lambda: WM.WcMatch(broot + b'/./', None, b'b', wfl0 | WM.DIRPATHNAME).match()),
                ('root with a closing separator, not recursive', lambda: WM.WcMatch(root + '/', '*').match(), lambda: WM.WcMatch(broot + b'/', b'*').match())):
            pair(ctx, 'WcMatch on a tree (' + what + ')', {'api': 'WcMatch', 'pattern': '', 'flags': wfl0, 'tree': spec, 'defaults': what}, sa, ba)
            ctx.count('tree_pairs')
        if k % 5 == 0:
            ctx.sample({'tree': spec, 'example': 'glob(p, root_dir=str) vs glob(encode(p), root_dir=bytes)'})


SWEEP_PATTERNS = ['*', '**', 'a*', '*/', '**/a', '?', '[a-b]*', '@(a|b)', '!(a)', '.*', 'a/*', '*.d', 'A', '~', '-a', '!a', '{a,b}', 'a|b',
                  'c:/*', '//h/s/*', '\\x61', 'a\\/b', '*\\\\']
SWEEP_NAMES = ['a', 'b', 'A', 'ab', '.a', '.', '..', 'a/', 'a\\', 'a/b', 'a\\b', 'a/b/', 'a\\b\\', 'dir/\\', 'a/.', 'a/..', './a', 'c.d',
               'c:/a', 'C:\\a', '//h/s/a', '\\\\H\\S\\a', '/', '\\', '~', '-a', '!a', '{a,b}', 'a|b', 'a.', 'a\n', ' ',
               # directory-style names with a line feed in front of the last separator
               'a\nb/', '\n/', 'x/a\nb/', 'a\nb/.', 'a\n/b', 'a\nb\\']


def flag_pair_sweep(ctx):
    """Every pair of flags (and every single flag) x a fixed pattern list x a fixed name list with both separator
    spellings, trailing separators, dots, drive shapes: str and bytes answers must agree."""
    import itertools
    n = 0
    for mod, opts in ((F, FN_OPT + ['EXTMATCH', 'SPLIT', 'BRACE']), (G, GL_OPT + ['EXTMATCH', 'SPLIT', 'BRACE', 'GLOBTILDE', 'FOLLOW'])):
        combos = [()] + [(f,) for f in opts] + list(itertools.combinations(opts, 2))
        for ci, combo in enumerate(combos):
            if not ctx.mine(ci):
                continue
            flags = flags_of(combo)
            for pat in SWEEP_PATTERNS:
                wit = {'api': mod.__name__.split('.')[-1], 'patterns': pat, 'exclude': None, 'flags': list(combo)}
                flt = mod.filter if mod is F else mod.globfilter
                pair(ctx, 'flag-pair sweep: filter', wit, lambda: flt(SWEEP_NAMES, pat, flags=flags),
                     lambda: flt(enc(SWEEP_NAMES), enc(pat), flags=flags))
                pair(ctx, 'flag-pair sweep: translate', wit, lambda: mod.translate(pat, flags=flags), lambda: mod.translate(enc(pat), flags=flags),
                     conv=lambda r: (enc(r[0]), enc(r[1])))
                n += 2
            ctx.mark_nontrivial(('sweep', mod.__name__, combo))
    ctx.count('flag_pair_sweep_pairs', n)


def tilde_pairs(ctx):
    """GLOBTILDE: the user folder is expanded alike for bytes and str, also behind an exclusion marker, in a SPLIT piece, in a BRACE
    alternative and in exclude=."""
    if ctx.shard != 1 % max(ctx.nshards, 1):
        ctx.count('tilde_pair_checks', 0)
        return
    with T.Tree([('a', 'f', None), ('b', 'f', None), ('d', 'd', None), ('d/a', 'f', None), ('!x', 'f', None)], 'c18t-') as tr:
        home = tr.root
        old = os.environ.get('HOME')
        os.environ['HOME'] = home
        try:
            B = G.GLOBTILDE | G.GLOBSTAR
            eh = G.escape(home)
            calls = [
                ('glob ~/*', lambda c: G.glob(c('~/*'), flags=B)),
                ('glob [home/**, !~/a]', lambda c: G.glob([c(eh + '/**'), c('!~/a')], flags=B | G.NEGATE)),
                ('glob home/**|!~/a (SPLIT)', lambda c: G.glob(c(eh + '/**|!~/a'), flags=B | G.NEGATE | G.SPLIT)),
                ('glob [home/**, -~/a] (MINUSNEGATE)', lambda c: G.glob([c(eh + '/**'), c('-~/a')], flags=B | G.NEGATE | G.MINUSNEGATE)),
                ('glob {~/a,~/b} (BRACE)', lambda c: G.glob(c('{~/a,~/b}'), flags=B | G.BRACE)),
                ('glob ~/* exclude=~/a', lambda c: G.glob(c('~/*'), flags=B, exclude=c('~/a'))),
                ('glob ~/* exclude=[~/d, ~/b]', lambda c: G.glob(c('~/*'), flags=B, exclude=[c('~/d'), c('~/b')])),
                ('translate ~/a', lambda c: G.translate(c('~/a'), flags=B | G.REALPATH)),
                ('translate !~/a', lambda c: G.translate(c('!~/a'), flags=B | G.REALPATH | G.NEGATE | G.NEGATEALL)),
                ('translate x|!~/a', lambda c: G.translate(c('x|!~/a'), flags=B | G.REALPATH | G.NEGATE | G.SPLIT)),
                ('translate -~/a', lambda c: G.translate(c('-~/a'), flags=B | G.REALPATH | G.NEGATE | G.MINUSNEGATE | G.NEGATEALL)),
                ('translate \\!~/a', lambda c: G.translate(c('\\!~/a'), flags=B | G.REALPATH | G.NEGATE)),
                ('translate ~root/x', lambda c: G.translate(c('~root/x'), flags=B | G.REALPATH)),
                ('globmatch home/a vs [home/**, !~/a]', lambda c: G.globmatch(c(home + '/a'), [c(eh + '/**'), c('!~/a')], flags=B | G.REALPATH | G.NEGATE)),
                ('globmatch home/b vs [home/**, !~/a]', lambda c: G.globmatch(c(home + '/b'), [c(eh + '/**'), c('!~/a')], flags=B | G.REALPATH | G.NEGATE)),
                ('globfilter', lambda c: G.globfilter([c(home + '/a'), c(home + '/b'), c(home + '/d/a')], c(eh + '/**|!~/a|!~/d/*'), flags=B | G.REALPATH | G.NEGATE | G.SPLIT)),
                ('compile.match', lambda c: G.compile([c('~/*')], flags=B | G.REALPATH, exclude=c('~/b')).match(c(home + '/b'))),
                ('glob ~/!x', lambda c: G.glob(c('~/\\!x'), flags=B | G.NEGATE)),
            ]
            for what, call_ in calls:
                with ctx.case(label=('tilde', what)):
                    r = pair(ctx, 'GLOBTILDE ' + what, {'call': what, 'home': home}, lambda: call_(lambda x: x), lambda: call_(enc))
                    ctx.count('tilde_pair_checks')
                    if r:
                        ctx.mark_nontrivial(('tilde', what))
        finally:
            if old is None:
                os.environ.pop('HOME', None)
            else:
                os.environ['HOME'] = old


def odd_tree_pairs(ctx):
    """The walker over names with line feeds, spaces, brackets and (ordinary on POSIX) backslashes: str and bytes alike, also under NODIR / MARK."""
    from .c05 import ODD_TREE
    pats = ['*', 'x*', 'b*', '**', '*/', 'a*', 'sub*/*', '?', 'c*/*', '**/*.py*', '[[]*', 'q*', '*\\\\', 'b?']
    fsets = [(), ('NODIR',), ('MARK',), ('GLOBSTAR', 'NODIR'), ('GLOBSTAR', 'MARK', 'DOTGLOB'), ('NODIR', 'IGNORECASE'), ('GLOBSTAR', 'NODIR', 'MATCHBASE')]
    idx, todo = 0, []
    for pat in pats:
        for fn in fsets:
            idx += 1
            if ctx.mine(idx):
                todo.append((pat, fn))
    if not todo:
        ctx.count('odd_tree_pairs', 0)
        return
    with T.Tree(ODD_TREE, 'c18o-') as tr:
        broot = os.fsencode(tr.root)
        for pat, fn in todo:
            fl = flags_of(('EXTGLOB',) + fn)
            with ctx.case(label=('odd-tree', pat, fn)):
                wit = {'api': 'glob.glob', 'patterns': pat, 'flags': ['EXTGLOB'] + list(fn), 'tree': 'ODD_TREE'}
                pair(ctx, 'glob on a tree of odd names', wit, lambda: sorted(G.glob(pat, flags=fl, root_dir=tr.root)),
                     lambda: sorted(G.glob(os.fsencode(pat), flags=fl, root_dir=broot)), conv=lambda r: sorted(os.fsencode(x) for x in r))
                pair(ctx, 'iglob + exclude on a tree of odd names', wit, lambda: sorted(G.iglob([pat], flags=fl, root_dir=tr.root, exclude='zz*')),
                     lambda: sorted(G.iglob([os.fsencode(pat)], flags=fl, root_dir=broot, exclude=b'zz*')), conv=lambda r: sorted(os.fsencode(x) for x in r))
                ctx.count('odd_tree_pairs', 2)


def run(ctx):
    quick = ctx.quick
    tilde_pairs(ctx)
    odd_tree_pairs(ctx)
    high_bytes(ctx)
    high_byte_tree(ctx)
    drive_text_pairs(ctx)
    flag_pair_sweep(ctx)
    if ctx.shard == 0:
        with T.Tree([('a', 'f', None), ('b', 'f', None)], 'c18m-') as tr:
            mixed_types(ctx, tr.root)
    else:
        ctx.count('mixed_type_checks', 0)
    k = 0
    limit = 250 if quick else 10 ** 9
    while k < limit and not ctx.out_of_time():
        k += 1
        rng = ctx.rng_for('r', ctx.shard, k)
        path_mode = bool(k % 2)
        mod = G if path_mode else F
        opts = GL_OPT if path_mode else FN_OPT
        if path_mode:
            toks = gen.rand_path_tokens(rng, maxseg=rng.randint(1, 3), alpha='abA.', depth=rng.randint(0, 2))
        else:
            toks = gen.rand_tokens(rng, maxtok=rng.randint(1, 6), depth=rng.randint(0, 2), alpha='abA.')
        if not toks or gen.ambiguous_adjacency(toks):
            continue
        fn = ['EXTMATCH'] + [opts[k % len(opts)]] + [f for f in opts if rng.random() < 0.15]
        text = gen.ser(toks)
        if rng.random() < 0.3:
            text += rng.choice(['\\x41', '\\101', '\\t', '\\x2a', '\\N{DIGIT ONE}', '\\u0041'])   # RAWCHARS material (str-only escapes differ by design)
            if 'RAWCHARS' in fn and ('\\N' in text or '\\u' in text):
                fn = [f for f in fn if f != 'RAWCHARS']
        if path_mode:
            names = gen.path_universe(toks, rng, cap=80, extra_names=['.a', 'A'])
        else:
            names, _ = gen.name_universe(toks, rng, maxlen=3, sigma_cap=4, derivations=6)
            names = names[:150] + ['.a', 'A', 'a/b', '1', '\t']
        if 'FORCEWIN' in fn:
            names += [n.replace('/', '\\') for n in names if '/' in n][:20]
        with ctx.case(label=(text, fn)):
            check_call(ctx, mod, text, None, fn, names, (text, tuple(fn)))
        if k % 2 == 0:
            c = rand_composite(rng, path_mode)
            fn2 = sorted(set(c.flags) | {opts[k % len(opts)]})
            alltoks = tuple(t for _x, ast in (c.inc + c.exc) for t in ast)
            names2 = gen.path_universe(alltoks, rng, cap=60) if path_mode else gen.name_universe(alltoks, rng, maxlen=2, sigma_cap=4)[0][:80]
            ctx.count('composite_pairs')
            with ctx.case(label=c.describe()):
                check_call(ctx, mod, c.patterns, c.exclude, fn2, names2 + ['.a'], repr(c.describe()))
        if k % (15 if quick else 6) == 0:
            with ctx.case(timeout=30, label=('tree', k)):
                tree_pairs(ctx, rng, k)
    ctx.count('random_patterns', k)
    for cn in ('tree_pairs', 'composite_pairs'):
        ctx.count(cn, 0)


def replay(ctx, w):
    import random
    if w.get('api') in ('fnmatch', 'glob') and 'patterns' in w:
        mod = G if w['api'] == 'glob' else F
        pats = w['patterns'] if isinstance(w['patterns'], str) else list(w['patterns'])
        exc = list(w['exclude']) if w.get('exclude') is not None else None
        rng = random.Random(0)
        names = ['a', 'b', 'A', '.a', 'ab', 'a/b', 'b/a', 'aa', w.get('name', 'a')] + SWEEP_NAMES
        check_call(ctx, mod, pats, exc, list(w['flags']), names, 'replay')
    elif 'tree' in w:
        spec = [tuple(x) for x in w['tree']]
        with T.Tree(spec, 'c18r-') as tr:
            root, broot = tr.root, os.fsencode(tr.root)
            if w['api'] == 'WcMatch' and w.get('defaults'):
                for sa, ba in ((lambda: WM.WcMatch(root, flags=w['flags']).match(), lambda: WM.WcMatch(broot, flags=w['flags']).match()),
                               (lambda: WM.WcMatch(root, '', 'b', w['flags']).match(), lambda: WM.WcMatch(broot, b'', b'b', w['flags']).match()),
                               (lambda: WM.WcMatch(root, 'a*|b', '', w['flags']).match(), lambda: WM.WcMatch(broot, b'a*|b', b'', w['flags']).match())):
                    pair(ctx, 'WcMatch on a tree (defaults)', w, sa, ba)
            elif w['api'] == 'WcMatch':
                pair(ctx, 'WcMatch on a tree', w, lambda: WM.WcMatch(root, w['pattern'], 'b', w['flags']).match(),
                     lambda: WM.WcMatch(broot, enc(w['pattern']), b'b', w['flags']).match())
            else:
                flags = flags_of(w['flags'])
                pair(ctx, 'glob on a tree', w, lambda: G.glob(w['pattern'], flags=flags, root_dir=root),
                     lambda: G.glob(enc(w['pattern']), flags=flags, root_dir=broot))
    else:
        high_bytes(ctx)
        high_byte_tree(ctx)
        drive_text_pairs(ctx)
        with T.Tree([('a', 'f', None)], 'c18m-') as tr:
            mixed_types(ctx, tr.root)
    return ctx.violations or None
