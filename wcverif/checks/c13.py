"""C13 - multi-pattern glob is the de-duplicated union minus exclusions (DESIGN.md section 5, C13)."""
import os

from .. import gen, tree as T
from ..common import G, flags_of, pathlib_mask
from wcmatch import pathlib as WP

PATHLIB_MASK = pathlib_mask()

SPEC = {
    'rule': ('on generated trees (with names differing only in case) lists of 1-4 overlapping / identical / case-variant '
             'patterns, also produced by BRACE and SPLIT, with 0-2 exclusions (exclude= or inline NEGATE) are globbed with the real '
             'glob.glob under sampled subsets of {NOUNIQUE, IGNORECASE, CASE, NEGATEALL, NODIR, SCANDOTDIR, GLOBSTAR, DOTGLOB, MARK}, '
             'and every expanded pattern is globbed alone; as sets (compared under the case rule in force) the list result must '
             'equal the union of the single results minus every path an exclusion pattern matches (trailing separator appended '
             'for directories, DOTGLOB forced); no path may be returned twice; with NOUNIQUE the list result must be the '
             'concatenation, in pattern order, of the single results after exclusion. The same is checked through Path.glob. '
             'A case is one (tree, list, flag set); it is non-trivial when at least two single patterns return a common path or an '
             'exclusion removes a path.'),
    'bounds': {'quick': {'trees_per_shard': 150, 'lists_per_tree': 14}, 'thorough': {'trees': 'until the time budget', 'lists_per_tree': 30}},
    'floor': {'quick': 5000, 'thorough': 60000},
    'required_counters': ['union_checks', 'uniqueness_checks', 'nounique_concat_checks', 'exclusion_removed', 'overlapping_lists',
                          'pathlib_checks', 'icase_lists', 'several_globstar_checks'],
    'budget': {'quick': 45, 'thorough': 480},
    'shard_timeout': {'quick': 400, 'thorough': 1500},
    'assumptions': ['single patterns and exclusions are evaluated by wcmatch itself (decomposition law); C05 judges them against the tree',
                    'os.scandir order is stable within one process'],
}

OPT = ['NOUNIQUE', 'IGNORECASE', 'CASE', 'NODIR', 'SCANDOTDIR', 'GLOBSTAR', 'DOTGLOB', 'MARK', 'NEGATEALL', 'MATCHBASE']


def fold(x, icase):
    return x.lower() if icase else x


def case_variant(rng, text):
    return ''.join(c.swapcase() if c.isalpha() and rng.random() < 0.5 else c for c in text)


def build_list(rng, tr):
    ents = tr.lexical()
    singles = []
    pats = []
    need = set()
    n = rng.randint(1, 4)
    use_abs = rng.random() < 0.15
    if use_abs:
        n = max(n, 2)
    while len(singles) < n:
        text = gen.ser(gen.tree_pattern(rng, ents, ext=True, globstar=True, maxseg=3))
        if not text or text.startswith('/'):
            continue
        is_abs = False
        if use_abs and rng.random() < 0.5:
            # an absolute pattern among relative ones: each keeps its own base, whatever their order
            text = G.escape(tr.root) + '/' + text
            is_abs = True
            need.add('_ABS')
        group = [text]
        r = rng.choice((0.1, 0.5, 0.9, 0.9)) if is_abs else rng.random()
        if r < 0.2:
            group.append(text)                      # identical
        elif r < 0.4:
            group.append(case_variant(rng, text))   # differs only in case
        elif r < 0.55:
            group.append(rng.choice(['*', '**', '*/*', '?*']))   # overlapping
        group = group[:n - len(singles)]
        form = rng.choice(['list', 'list', 'brace', 'split']) if len(group) > 1 else 'list'
        if form == 'list':
            pats.extend(group)
        elif form == 'brace':
            pats.append('{' + ','.join(group) + '}')
            need.add('BRACE')
        else:
            pats.append('|'.join(group))
            need.add('SPLIT')
        singles.extend(group)
    if rng.random() < 0.15:
        # an empty pattern denotes nothing and changes nothing, wherever it stands (list element, SPLIT alternative)
        if 'SPLIT' in need and rng.random() < 0.5:
            i_ = rng.randrange(len(pats))
            pats[i_] = rng.choice(('|' + pats[i_], pats[i_] + '|', pats[i_].replace('|', '||', 1)))
        else:
            pats.insert(rng.randrange(len(pats) + 1), '')
    excl = []
    # (whether a relative exclusion applies to the absolute results of an absolute pattern is not stated: no exclusions then)
    for _ in range(rng.choice((0, 0, 1, 1, 2)) if not use_abs else 0):
        e = gen.ser(gen.tree_pattern(rng, ents, ext=True, globstar=True, maxseg=2))
        if e and not e.startswith('/'):
            excl.append(e)
    return pats, singles, excl, need


def excluded(path, root, excl, base_flags):
    full = os.path.join(root, path)
    p = path
    if os.path.isdir(full) and not p.endswith('/'):
        p += '/'
    return any(G.globmatch(p, e, flags=base_flags | G.DOTGLOB) for e in excl)


def check_list(ctx, tr, rng, k, j, forced=None):
    if forced:
        pats, singles, excl, fn, inline = forced
        pats, singles, excl, fn, need = list(pats), list(singles), list(excl), list(fn), set()
    else:
        pats, singles, excl, need = build_list(rng, tr)
    has_abs = '_ABS' in need
    need.discard('_ABS')
    if not forced:
        fn = ['EXTGLOB'] + sorted(need) + [f for f in OPT if rng.random() < 0.28]
        if 'CASE' in fn and 'IGNORECASE' in fn and rng.random() < 0.5:
            fn.remove('CASE')
        inline = bool(excl) and rng.random() < 0.5
    kw = {}
    api_pats = list(pats)
    if excl:
        if inline:
            fn.append('NEGATE')
            if forced or rng.random() < 0.5:
                api_pats += ['!' + e for e in excl]
            else:
                # an exclusion may stand anywhere in the list (also in front of repeated inclusions): it filters, it is no result
                for e in excl:
                    api_pats.insert(rng.randrange(len(api_pats) + 1), '!' + e)
        else:
            kw['exclude'] = list(excl)
    only_excl_case = False
    if excl and inline and rng.random() < 0.15:
        # exclusions alone
        api_pats = ['!' + e for e in excl]
        singles = ['**'] if 'NEGATEALL' in fn else []
        only_excl_case = True
    flags = flags_of(fn)
    icase = 'IGNORECASE' in fn and 'CASE' not in fn
    nounique = 'NOUNIQUE' in fn
    structural = {'NEGATE', 'NEGATEALL', 'BRACE', 'SPLIT', 'NOUNIQUE'}
    # single patterns are run raw (NOUNIQUE): the uniqueness filter of a single-pattern call would already merge case twins
    sflags = flags_of(f for f in fn if f not in structural) | (G.GLOBSTAR if only_excl_case else 0) | G.NOUNIQUE
    eflags = flags_of(f for f in fn if f not in structural and f not in ('NODIR', 'MARK', 'SCANDOTDIR'))
    wit = {'tree': tr.spec, 'patterns': api_pats, 'kw': kw, 'flags': fn, 'singles': singles, 'exclusions': excl}
    root = tr.root
    try:
        res = G.glob(api_pats, flags=flags, root_dir=root, **kw)
        per = [G.glob(s, flags=sflags, root_dir=root) for s in singles]
    except Exception as e:  # noqa: BLE001
        ctx.disagree(f'glob raised {type(e).__name__}', dict(wit, exception=repr(e)[:200]))
        return
    kept = [[x for x in lst if not excluded(x, root, excl, eflags)] for lst in per]
    removed = sum(len(a) - len(b) for a, b in zip(per, kept))
    if removed:
        ctx.count('exclusion_removed', removed)
    exp_set = {fold(T.norm_result(x), icase) for lst in kept for x in lst}
    got_set = {fold(T.norm_result(x), icase) for x in res}
    ctx.evals()
    ctx.count('union_checks')
    if icase:
        ctx.count('icase_lists')
    if got_set != exp_set:
        ctx.disagree('list result is not the union of the single-pattern results minus the exclusions' +
                     (' (NOUNIQUE)' if nounique else '') + (' (exclude=)' if kw else ' (inline)' if excl else ''),
                     dict(wit, missing=sorted(exp_set - got_set)[:10], extra=sorted(got_set - exp_set)[:10], result=res[:30]))
        return
    overlap = sum(len(x) for x in kept) > len(exp_set)
    if overlap:
        ctx.count('overlapping_lists')
    if not nounique:
        ctx.evals()
        ctx.count('uniqueness_checks')
        if len(set(res)) != len(res):
            dup = sorted({x for x in res if res.count(x) > 1})
            ctx.disagree('a path is returned twice' + (' (case-insensitive rule in force)' if icase else ''),
                         dict(wit, duplicates=dup[:10], result=res[:30]), 'KF-UNIQUE-CASEFOLD' if icase else None)
        elif icase and len({fold(x, True) for x in res}) != len(res):
            # two distinct entries of a case-sensitive file system that differ only in case: whether the case-insensitive
            # rule makes them "the same path" is not settled by the property; observed, not asserted
            ctx.count('case_twins_both_returned')
    else:
        ctx.evals()
        ctx.count('nounique_concat_checks')
        concat = [x for lst in kept for x in lst]
        if res != concat:
            ctx.disagree('NOUNIQUE result is not the concatenation of the single-pattern results in pattern order',
                         dict(wit, expected=concat[:30], result=res[:30]))
    # the same through pathlib
    if j % 3 == 0 and not has_abs and not any(p.startswith('/') for p in api_pats):
        pflags = flags & PATHLIB_MASK | (WP.SCANDOTDIR if 'SCANDOTDIR' in fn else 0)
        try:
            pres = [str(p) for p in WP.Path(root).glob(api_pats, flags=pflags, **kw)]
        except Exception as e:  # noqa: BLE001
            pres = f'raised {type(e).__name__}'
        ctx.evals()
        ctx.count('pathlib_checks')
        if isinstance(pres, str):
            ctx.disagree(f'Path.glob {pres}', wit)
        else:
            # pathlib has no MARK / trailing separators and normalises `x/.`; compare as normalised absolute paths
            want = {fold(os.path.normpath(os.path.join(root, T.norm_result(x))), icase) for x in res}
            gotp = {fold(os.path.normpath(x), icase) for x in pres}
            if 'SCANDOTDIR' not in fn and gotp != want:
                ctx.disagree('Path.glob of a list differs (as a set) from glob.glob with the same root', dict(wit, glob=sorted(want)[:20], pathlib=sorted(gotp)[:20]))
            if not nounique and len(set(pres)) != len(pres) and 'IGNORECASE' not in fn:
                ctx.disagree('Path.glob returns one path twice', dict(wit, pathlib=pres[:30]))
            if nounique and 'SCANDOTDIR' not in fn:
                # NOUNIQUE through pathlib: the concatenation with duplicates kept, like glob.glob
                lw = [fold(os.path.normpath(os.path.join(root, T.norm_result(x))), icase) for x in res]
                lg = [fold(os.path.normpath(x), icase) for x in pres]
                ctx.count('pathlib_nounique_checks')
                if lw != lg:
                    ctx.disagree('NOUNIQUE: Path.glob of a list is not the concatenation glob.glob returns (duplicates / order)',
                                 dict(wit, glob=[os.path.relpath(x, root) for x in lw[:20]], pathlib=[os.path.relpath(x, root) for x in lg[:20]]))
    if overlap or removed:
        ctx.mark_nontrivial((ctx.shard, k, j))
    if j == 0 and k % 8 == 0:
        ctx.sample({'tree': tr.spec, 'patterns': api_pats, 'kw': kw, 'flags': fn, 'result': res[:8], 'per_pattern': [x[:5] for x in per]})


# patterns that are the same text up to letter case and still denote different sets, whatever the case rule: a list keeps both
CASE_TREE = [('_a', 'f', None), ('a', 'f', None), ('B', 'f', None), ('^x', 'f', None), ('1', 'f', None), ('Zz', 'f', None),
             ('d', 'd', None), ('d/_q', 'f', None), ('d/q', 'f', None), ('d/Q1', 'f', None)]
CASE_PAIRS = [('[a-z]*', '[A-z]*'), ('[!a-z]*', '[!A-z]*'), ('[[:alpha:]]*', '[[:ALPHA:]]*'), ('d/[a-z]*', 'd/[A-z]*'), ('*/[a-z]*', '*/[A-z]*'),
              ('[[:upper:]]*', '[[:UPPER:]]*'), ('[a-z]', '[A-z]'), ('**/[a-z]*', '**/[A-z]*'), ('@([a-z]*)', '@([A-z]*)'), ('[a-z]*', '[A-Z]*')]


def case_pair_scenarios(ctx):
    idx = 0
    todo = []
    for a, b in CASE_PAIRS:
        for x, y in ((a, b), (b, a)):
            for fn in (('IGNORECASE',), ('IGNORECASE', 'NOUNIQUE'), (), ('IGNORECASE', 'GLOBSTAR', 'MARK'), ('CASE', 'IGNORECASE')):
                for form in ('list', 'brace', 'split', 'exclude=', 'inline'):
                    idx += 1
                    if ctx.mine(idx):
                        todo.append((x, y, fn, form))
    if not todo:
        return
    import random
    with T.Tree(CASE_TREE, 'c13c-') as tr:
        for x, y, fn, form in todo:
            fn = ['EXTGLOB', 'GLOBSTAR'] + [f for f in fn if f != 'GLOBSTAR']
            if form == 'list':
                forced = ([x, y], [x, y], [], fn, False)
            elif form == 'brace':
                forced = (['{' + x + ',' + y + '}'], [x, y], [], fn + ['BRACE'], False)
            elif form == 'split':
                forced = ([x + '|' + y], [x, y], [], fn + ['SPLIT'], False)
            elif form == 'exclude=':
                forced = (['**'], ['**'], [x, y], fn, False)
            else:
                forced = (['**'], ['**'], [x, y], fn, True)
            with ctx.case(timeout=20, label=('case-pair', x, y, tuple(fn), form)):
                check_list(ctx, tr, random.Random(idx), 0, 1, forced=forced)
                ctx.count('case_pair_scenarios')


def odd_name_lists(ctx):
    """Exclusions against names that end in / hold a line feed, a space, a backslash: an exclusion removes the names it matches whole."""
    from .c05 import ODD_TREE
    import random
    cases = [(['*'], ['abc']), (['*'], ['a?c']), (['*'], ['a']), (['*'], ['x.txt', 'ab']), (['**'], ['**/m.py']), (['**'], ['sub/*.py']), (['*', 'a*'], ['ab[c]']),
             (['**'], ['sub']), (['*'], ['x']), (['*'], ['b?']), (['**'], ['**/n.p?', 'q?r']), (['sub/*', 'sub*'], ['sub/m.py']), (['*'], ['[a]']), (['**'], ['**/f'])]
    fsets = [(), ('NODIR',), ('MARK',), ('NOUNIQUE',), ('DOTGLOB', 'NODIR'), ('IGNORECASE',)]
    idx, todo = 0, []
    for pats, excl in cases:
        for fn in fsets:
            for inline in (False, True):
                idx += 1
                if ctx.mine(idx):
                    todo.append((pats, excl, fn, inline))
    if not todo:
        return
    with T.Tree(ODD_TREE, 'c13o-') as tr:
        for pats, excl, fn, inline in todo:
            fn = ['EXTGLOB', 'GLOBSTAR'] + list(fn)
            with ctx.case(timeout=20, label=('odd-names', tuple(pats), tuple(excl), tuple(fn), inline)):
                check_list(ctx, tr, random.Random(idx), 0, 1, forced=(pats, pats, excl, fn, inline))
                ctx.count('odd_name_lists')


NEST_TREE = [('a', 'd', None), ('a/a', 'd', None), ('a/a/b', 'd', None), ('a/a/b/f.txt', 'f', None), ('a/f.txt', 'f', None),
             ('B', 'd', None), ('B/B', 'd', None), ('B/B/A', 'd', None), ('B/B/A/a', 'f', None), ('a/a/a', 'd', None), ('a/a/a/g', 'f', None)]


def several_globstars(ctx):
    """One pattern with two or three globstars on a tree whose directory names nest in themselves (`a/a/b`, `B/B/A`): the globstars can
    split one path in several ways, and the path must still be returned once (no NOUNIQUE), with the same set as under NOUNIQUE.
    Every position of the second globstar: in the middle, last, last with a separator, behind a wildcard segment."""
    pats = ['**/a/**', '**/a/**/', 'a/**/a/**', '**/a/**/*', '**/*/**', 'B/**/*/**', '**/B/**', '**/a/**/b/**', '**/**/a/**', '**/a/**/f.txt',
            '**/[a]/**', '**/a/***', '***/a/**']
    fsets = [('GLOBSTAR',), ('GLOBSTAR', 'SCANDOTDIR'), ('GLOBSTAR', 'SCANDOTDIR', 'MARK'), ('GLOBSTAR', 'SCANDOTDIR', 'DOTGLOB'),
             ('GLOBSTAR', 'MARK'), ('GLOBSTAR', 'SCANDOTDIR', 'NODIR'), ('GLOBSTAR', 'GLOBSTARLONG', 'SCANDOTDIR'), ('GLOBSTAR', 'NODOTDIR')]
    idx, todo = 0, []
    for pat in pats:
        for fs in fsets:
            idx += 1
            if ctx.mine(idx) and ('***' not in pat or 'GLOBSTARLONG' in fs):
                todo.append((pat, fs))
    if not todo:
        return
    with T.Tree(NEST_TREE, 'c13n-') as tr:
        for pat, fs in todo:
            wit = {'tree': NEST_TREE, 'patterns': [pat], 'flags': list(fs), 'kw': {}, 'singles': [pat], 'exclusions': [], 'mode': 'several-globstars'}
            with ctx.case(timeout=20, label=('several-globstars', pat, fs)):
                flags = flags_of(fs)
                for form in (pat, [pat]):
                    try:
                        ref = G.glob(form, flags=flags | G.NOUNIQUE, root_dir=tr.root)
                        res = G.glob(form, flags=flags, root_dir=tr.root)
                        it = list(G.iglob(form, flags=flags, root_dir=tr.root))
                    except Exception as e:  # noqa: BLE001
                        ctx.disagree(f'glob raised {type(e).__name__}', dict(wit, exception=repr(e)[:200]))
                        break
                    ctx.evals(3)
                    ctx.count('several_globstar_checks')
                    ctx.count('uniqueness_checks')
                    if len(set(res)) != len(res) or len(set(it)) != len(it):
                        dup = sorted({x for x in res + it if (res + it).count(x) > 2 or res.count(x) > 1})
                        ctx.disagree('a path is returned twice', dict(wit, duplicates=dup[:10], result=res[:30]))
                    elif set(res) != set(ref) or set(it) != set(ref):
                        ctx.disagree('the de-duplicated result of one pattern is not the set of its NOUNIQUE result',
                                     dict(wit, missing=sorted(set(ref) - set(res))[:10], extra=sorted(set(res) - set(ref))[:10]))
                    if res:
                        ctx.mark_nontrivial(('several-globstars', pat, fs))


def run(ctx):
    quick = ctx.quick
    case_pair_scenarios(ctx)
    odd_name_lists(ctx)
    several_globstars(ctx)
    k = 0
    limit = 150 if quick else 10 ** 9
    while k < limit and not ctx.out_of_time():
        k += 1
        rng = ctx.rng_for('t', ctx.shard, k)
        spec = T.gen_spec(rng, link_kinds=['file', 'dir', 'dangling', 'sibling', 'hidden', 'self'])
        with T.Tree(spec, 'c13-') as tr:
            for j in range(14 if quick else 30):
                with ctx.case(timeout=20, label=('tree', ctx.shard, k, j)):
                    check_list(ctx, tr, rng, k, j)
    ctx.count('trees', k)
    for c in ('exclusion_removed', 'overlapping_lists', 'pathlib_checks', 'icase_lists', 'nounique_concat_checks'):
        ctx.count(c, 0)


def replay(ctx, w):
    spec = [tuple(x) for x in w['tree']]
    with T.Tree(spec, 'c13r-') as tr:
        fn = list(w['flags'])
        flags = flags_of(fn)
        kw = {k: list(v) for k, v in (w.get('kw') or {}).items()}
        pats = list(w['patterns'])
        icase = 'IGNORECASE' in fn and 'CASE' not in fn
        res = G.glob(pats, flags=flags, root_dir=tr.root, **kw)
        structural = {'NEGATE', 'NEGATEALL', 'BRACE', 'SPLIT', 'NOUNIQUE'}
        sflags = flags_of(f for f in fn if f not in structural) | G.NOUNIQUE
        eflags = flags_of(f for f in fn if f not in structural and f not in ('NODIR', 'MARK', 'SCANDOTDIR'))
        per = [G.glob(s, flags=sflags | (G.GLOBSTAR if s == '**' else 0), root_dir=tr.root) for s in w['singles']]
        kept = [[x for x in lst if not excluded(x, tr.root, list(w['exclusions']), eflags)] for lst in per]
        exp_set = {fold(T.norm_result(x), icase) for lst in kept for x in lst}
        got_set = {fold(T.norm_result(x), icase) for x in res}
        if got_set != exp_set:
            ctx.disagree('list result is not the union of the single-pattern results minus the exclusions', w)
        if 'NOUNIQUE' not in fn and len(set(res)) != len(res):
            ctx.disagree('a path is returned twice', w, 'KF-UNIQUE-CASEFOLD' if icase and len(set(res)) != len(res) else None)
        if 'NOUNIQUE' in fn and res != [x for lst in kept for x in lst]:
            ctx.disagree('NOUNIQUE result is not the concatenation of the single-pattern results in pattern order', w)
    return ctx.violations or None
