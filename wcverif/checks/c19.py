"""C19 - results never depend on call history, caching, sharing or threads (DESIGN.md section 5, C19)."""
import copy
import json
import os
import pickle
import random
import subprocess
import sys
import threading
import time

from .. import env, gen, tree as T
from ..common import F, G, P, flags_of, pathlib_mask
from wcmatch import pathlib as WP, wcmatch as WM

LINE_PROBE = False    # sys.monitoring is used by the yield injector of this check

PATHLIB_MASK = pathlib_mask()

SPEC = {
    'rule': ('a pool of (function, pattern, flags, names) calls is built to collide in the cache key space: more than 600 distinct '
             'pattern texts (so that the 256-entry compile cache must evict), the same text under differing flags, str and bytes '
             'twins, translate / compile / match / filter of the same text, file-name and path mode, glob / WcMatch / pathlib calls '
             'on one fixed tree. The answer of every call is taken (b) alone after clearing every cache - the reference - and '
             'compared with (a) the same call in a fresh interpreter (one process per sampled call, and whole slices in reversed '
             'order), (c) seeded call sequences of up to 400 calls in one process without clearing, (d) 8 threads running seeded '
             'permutations with a 1 microsecond switch interval and a sys.monitoring LINE callback that yields the GIL inside '
             'wcmatch code. Compiled matchers are compared for ==/hash (built twice), agreement when equal, pickle / copy / '
             'deepcopy round trips, pickles produced by two other interpreters (PYTHONHASHSEED 1 and 2) compared for ==/hash/set membership/answers with the matcher built here, immutability and 1st-vs-1000th use. A case is one call in one history; it is non-trivial when '
             'the call\'s pattern text occurs in the pool under at least two different flag sets or types.'),
    'bounds': {'quick': {'pool': '~1000 calls', 'sequences_per_shard': 6, 'thread_rounds_per_shard': 2, 'fresh_interpreter_calls_per_shard': 12},
               'thorough': {'sequences': 'until the time budget', 'thread_rounds_per_shard': 12, 'fresh_interpreter_calls_per_shard': 60}},
    'floor': {'quick': 20000, 'thorough': 200000},
    'required_counters': ['sequence_calls', 'thread_calls', 'fresh_interpreter_calls', 'cache_hits_seen', 'cache_evictions_seen',
                          'forced_yields', 'matcher_object_checks', 'distinct_interleavings', 'matcher_reuse_fs_checks', 'cross_interpreter_pickles'],
    'budget': {'quick': 45, 'thorough': 480},
    'shard_timeout': {'quick': 400, 'thorough': 1500},
    'assumptions': ['CPython\'s GIL hides most data races; what can be exposed is logical sharing (module-level parser state, a cache '
                    'key that drops a flag or the type)'],
}

TREE = [('a', 'f', None), ('b', 'f', None), ('.h', 'f', None), ('d', 'd', None), ('d/a', 'f', None), ('d/.x', 'f', None),
        ('d/e', 'd', None), ('d/e/ab', 'f', None), ('L', 'l', 'd'), ('A', 'f', None), ('c.d', 'f', None),
        ('D', 'd', None), ('D/a', 'f', None), ('D/B', 'f', None), ('d/A', 'f', None)]

FN_SETS = [(), ('FORCEWIN',), ('FORCEWIN', 'RAWCHARS'), ('FORCEUNIX', 'RAWCHARS'), ('EXTMATCH',), ('EXTMATCH', 'DOTMATCH'), ('IGNORECASE',), ('EXTMATCH', 'FORCEWIN'), ('EXTMATCH', 'NEGATE'),
           ('EXTMATCH', 'SPLIT'), ('EXTMATCH', 'BRACE'), ('EXTMATCH', 'CASE', 'IGNORECASE'), ('RAWCHARS',), ('EXTMATCH', 'NEGATE', 'NEGATEALL'),
           ('SPLIT',), ('BRACE',), ('SPLIT', 'BRACE'), ('EXTMATCH', 'SPLIT', 'BRACE'), ('SPLIT', 'NEGATE'), ('SPLIT', 'DOTMATCH')]
GL_SETS = FN_SETS + [('EXTMATCH', 'GLOBSTAR'), ('EXTMATCH', 'GLOBSTAR', 'DOTMATCH'), ('MATCHBASE',), ('EXTMATCH', 'NODIR'),
                     ('EXTMATCH', 'GLOBSTARLONG'), ('EXTMATCH', 'NODOTDIR')]
REAL_NAMES = ['a', 'b', 'd/a', 'L/a', 'd/e/ab', 'L/e/ab', 'D/a', 'd', 'L', 'd/e', 'L/e', '.h', 'd/.x', 'L/.x', 'c.d', 'zz', 'A', 'd/A', 'L/A']
NAMES = ['a', 'b', 'ab', '.a', 'A', 'a.b', 'aa', 'ba', 'a/b', 'd/a', 'd/e/ab', '.h', 'c.d', 'B', 'a|b', '{a,b}', '!a', 'x', 'a/', 'b/a/ab']


def build_pool(seed, n_texts=640):
    rng = random.Random(f'c19-pool-{seed}')
    texts = []
    seen = set()
    while len(texts) < n_texts:
        path = rng.random() < 0.4
        toks = gen.rand_path_tokens(rng, maxseg=3, alpha='abA.', depth=1) if path else gen.rand_tokens(rng, maxtok=rng.randint(1, 5), depth=2, alpha='abA.')
        if not toks or gen.ambiguous_adjacency(toks):
            continue
        t = gen.ser(toks)
        if t in seen or not t:
            continue
        seen.add(t)
        texts.append(t)
    fixed = ['*', '?', '*.d', 'a*', '[ab]', '!a', 'a|b', '{a,b}', '**', '**/a', '@(a|b)', '!(a)', '*(a)', '.*', '\\x61', 'd/*', '*/a', 'A', 'a',
             'd/a', 'D/a', 'd/A', 'd/e/ab', 'D/*', 'd/e/*', '*/A', 'L/a', '[z-a]', '[!9-0]', 'x[!q-p]', '[!z-a]*', '\\x41', '\\103', '\\t', 'a\\/b', '\\N', '\\x5c*', '+(a|b)', '*(a|b)b', '[a/|b]x', '[a|b]', '{a,b}|c', '@(a|{b,c})', 'a\\|b', '!(a|b)|a', 'd/@(a|e)', '~', '-a', '{a..c}']
    texts = fixed + texts
    pool = []
    for i, t in enumerate(texts):
        heavy = i < len(fixed) + 40      # these texts appear under many flag sets / types / apis (cache key collisions)
        nsets = 7 if heavy else 1
        for _ in range(nsets):
            glob_mode = rng.random() < 0.5
            fs = rng.choice(GL_SETS if glob_mode else FN_SETS)
            api = rng.choice(['filter', 'compile.filter', 'translate', 'match'])
            pool.append({'api': ('glob.' if glob_mode else 'fnmatch.') + api, 'pat': t, 'flags': list(fs), 'bytes': False})
            if heavy and rng.random() < 0.5:
                pool.append({'api': ('glob.' if glob_mode else 'fnmatch.') + api, 'pat': t, 'flags': list(fs), 'bytes': True})
        if heavy and '\\' not in t and not t.startswith('/'):
            pool.append({'api': 'glob.glob', 'pat': t, 'flags': list(rng.choice(GL_SETS[4:7] + GL_SETS[14:16])), 'bytes': rng.random() < 0.3})
            # the same text through the walker under a case-insensitive and a case-sensitive rule, str and bytes
            pool.append({'api': 'glob.glob', 'pat': t, 'flags': ['EXTMATCH', 'IGNORECASE'], 'bytes': False})
            pool.append({'api': 'glob.glob', 'pat': t, 'flags': ['EXTMATCH', 'CASE'], 'bytes': False})
            pool.append({'api': 'glob.glob', 'pat': t, 'flags': ['EXTMATCH', 'IGNORECASE', 'GLOBSTAR'], 'bytes': True})
            pool.append({'api': 'pathlib.match', 'pat': t, 'flags': list(rng.choice([('EXTMATCH',), ('EXTMATCH', 'GLOBSTAR'), ('EXTMATCH', 'DOTMATCH')])), 'bytes': False})
            pool.append({'api': 'wcmatch', 'pat': t, 'flags': [], 'bytes': rng.random() < 0.3})
            # the same text through the walker with and without MATCHBASE's / rglob's implicit prefix (what one call adds to the
            # parsed pattern must not be seen by the other)
            pool.append({'api': 'glob.glob', 'pat': t, 'flags': ['EXTMATCH', 'GLOBSTAR', 'MATCHBASE'], 'bytes': False})
            pool.append({'api': 'glob.glob', 'pat': t, 'flags': ['EXTMATCH', 'GLOBSTAR'], 'bytes': False})
            pool.append({'api': 'pathlib.rglob', 'pat': t, 'flags': ['EXTMATCH', 'GLOBSTAR'], 'bytes': False})
            pool.append({'api': 'pathlib.glob', 'pat': t, 'flags': ['EXTMATCH', 'GLOBSTAR'], 'bytes': False})
            # the matcher against the file system (paths through the link L), with and without MATCHBASE, with and without an exclusion,
            # next to translate() of the same text under the same flags (translate and exclusions compile recursive segments differently)
            for fs_ in (['EXTMATCH', 'MATCHBASE'], ['EXTMATCH', 'GLOBSTAR'], ['EXTMATCH', 'MATCHBASE', 'DOTMATCH'], ['EXTMATCH', 'MATCHBASE', 'GLOBSTARLONG', 'FOLLOW']):
                pool.append({'api': 'glob.realfilter', 'pat': t, 'flags': fs_, 'bytes': False})
                pool.append({'api': 'glob.realfilter-exclude', 'pat': t, 'flags': fs_, 'bytes': rng.random() < 0.3})
                pool.append({'api': 'glob.translate', 'pat': t, 'flags': fs_ + ['REALPATH'], 'bytes': False})
    # texts with escapes: the same text under Windows / Unix style, with and without RAWCHARS, str and bytes (normalisation of the
    # pattern text happens before parsing and must depend on all of these)
    for t in fixed:
        if '\\' in t:
            for fs in (('FORCEWIN',), ('FORCEWIN', 'RAWCHARS'), ('FORCEUNIX', 'RAWCHARS'), ('FORCEUNIX',)):
                for api in ('fnmatch.filter', 'glob.translate', 'fnmatch.match'):
                    for b_ in (False, True):
                        pool.append({'api': api, 'pat': t, 'flags': list(fs), 'bytes': b_})
    for i, c in enumerate(pool):
        c['id'] = i
    return pool


def enc(x, b):
    if not b:
        return x
    if isinstance(x, str):
        return x.encode('latin-1')
    return [enc(y, b) for y in x]


def dec(x):
    if isinstance(x, bytes):
        return x.decode('latin-1')
    if isinstance(x, (list, tuple)):
        return [dec(y) for y in x]
    return x


def eval_call(c, root):
    """Execute one pool call; the result is JSON-able (exceptions by type)."""
    b = c['bytes']
    api = c['api']
    try:
        pat = enc(c['pat'], b)
    except UnicodeEncodeError:
        return ['skip']
    names = enc(NAMES, b) if b else NAMES + ['\u2603', 'x\u2603', '\u0100']     # (str calls also see names outside Latin-1)
    flags = flags_of(c['flags'])
    try:
        if api in ('glob.realfilter', 'glob.realfilter-exclude'):
            r = os.fsencode(root) if b else root
            cands = enc(REAL_NAMES, b) if b else REAL_NAMES
            kw_ = {'exclude': enc('zz*', b)} if api.endswith('exclude') else {}
            return dec(G.globfilter(cands, pat, flags=flags | G.REALPATH, root_dir=r, **kw_))
        if api.startswith('fnmatch.') or api.startswith('glob.') and api != 'glob.glob':
            mod = F if api.startswith('fnmatch.') else G
            op = api.split('.', 1)[1]
            if op == 'filter':
                return dec((mod.filter if mod is F else mod.globfilter)(names, pat, flags=flags))
            if op == 'compile.filter':
                return dec(mod.compile(pat, flags=flags).filter(names))
            if op == 'translate':
                return dec(mod.translate(pat, flags=flags))
            return [bool((mod.fnmatch if mod is F else mod.globmatch)(n, pat, flags=flags)) for n in names]
        if api == 'glob.glob':
            r = os.fsencode(root) if b else root
            return sorted(dec(G.glob(pat, flags=flags, root_dir=r)))
        if api in ('pathlib.rglob', 'pathlib.glob'):
            P_ = WP.Path(root)
            it = P_.rglob(c['pat'], flags=flags & PATHLIB_MASK) if api == 'pathlib.rglob' else P_.glob(c['pat'], flags=flags & PATHLIB_MASK)
            return sorted(os.path.relpath(str(x), root) for x in it)
        if api == 'pathlib.match':
            return [bool(WP.PurePosixPath(n).match(c['pat'], flags=flags & PATHLIB_MASK)) for n in NAMES if n]
        if api == 'wcmatch':
            r = os.fsencode(root) if b else root
            return sorted(os.path.relpath(os.fsdecode(x), root) for x in WM.WcMatch(r, pat, flags=WM.RECURSIVE | WM.HIDDEN | WM.EXTMATCH).match())
    except Exception as e:  # noqa: BLE001
        return ['raised', type(e).__name__]
    return ['unknown api']


class _NoCacheInfo:
    hits = misses = currsize = 0
    maxsize = None


def cache_info():
    """Statistics of the compile cache; fail-soft if a refactor renames or removes it (evidence only)."""
    try:
        return P._compile.cache_info()
    except AttributeError:
        return _NoCacheInfo()


def clear_caches():
    """Clear every cache we can find: lru caches at module level of the wcmatch package, and `re`'s own cache."""
    import re
    import wcmatch
    for name, mod in list(sys.modules.items()):
        if name == 'wcmatch' or name.startswith('wcmatch.'):
            for obj in list(vars(mod).values()):
                cc = getattr(obj, 'cache_clear', None)
                if callable(cc):
                    try:
                        cc()
                    except Exception:  # noqa: BLE001
                        pass
    _ = wcmatch
    re.purge()


# ---------------------------------------------------------------------------------------------
def fresh_main(argv):
    """Entry point of a fresh interpreter: evaluate the given call ids in the given order."""
    seed, root, ids = int(argv[0]), argv[1], [int(x) for x in argv[2].split(',')]
    env.import_wcmatch()
    pool = build_pool(seed)
    out = {}
    for i in ids:
        out[i] = eval_call(pool[i], root)
    json.dump(out, sys.stdout)
    return 0


def run_fresh(seed, root, ids):
    cmd = [sys.executable, '-m', 'wcverif.checks.c19', '--fresh', str(seed), root, ','.join(map(str, ids))]
    e = dict(os.environ, PYTHONHASHSEED='0', PYTHONDONTWRITEBYTECODE='1', PYTHONPATH=env.VERIF + os.pathsep + env.REPO)
    r = subprocess.run(cmd, cwd=env.VERIF, env=e, capture_output=True, timeout=300)
    if r.returncode != 0:
        raise RuntimeError(r.stderr.decode()[-400:])
    return {int(k): v for k, v in json.loads(r.stdout.decode()).items()}


class YieldInjector:
    """sys.monitoring LINE callback on wcmatch code that yields the GIL with seeded probability."""

    def __init__(self, seed, prob=0.02):
        self.rng = random.Random(seed)
        self.prob = prob
        self.count = 0
        self.ok = False

    def start(self):
        mon = getattr(sys, 'monitoring', None)
        if mon is None:
            return
        prefix = os.path.join(os.path.realpath(env.REPO), 'wcmatch') + os.sep
        self.tool = mon.DEBUGGER_ID
        try:
            mon.use_tool_id(self.tool, 'wcverif-yield')
        except ValueError:
            return
        me = self

        def on_line(code, line):
            if not code.co_filename.startswith(prefix):
                return mon.DISABLE
            if me.rng.random() < me.prob:
                me.count += 1
                time.sleep(0)
            return None

        mon.register_callback(self.tool, mon.events.LINE, on_line)
        mon.set_events(self.tool, mon.events.LINE)
        self.ok = True

    def stop(self):
        if self.ok:
            mon = sys.monitoring
            mon.set_events(self.tool, 0)
            mon.register_callback(self.tool, mon.events.LINE, None)
            mon.free_tool_id(self.tool)
            self.ok = False


def matcher_objects(ctx, pool, rng):
    sample = rng.sample([c for c in pool if c['api'].endswith('compile.filter') or c['api'].endswith('.match')], 60)
    built = []
    for c in sample:
        mod = F if c['api'].startswith('fnmatch') else G
        try:
            pat = enc(c['pat'], c['bytes'])
        except UnicodeEncodeError:
            continue
        try:
            m1 = mod.compile(pat, flags=flags_of(c['flags']))
            m2 = mod.compile(pat, flags=flags_of(c['flags']))
        except Exception:  # noqa: BLE001
            continue
        names = enc(NAMES, c['bytes'])
        wit = {'call': c}
        ctx.evals()
        ctx.count('matcher_object_checks')
        if not (m1 == m2 and hash(m1) == hash(m2) and not (m1 != m2)):
            ctx.disagree('two matchers built from the same arguments are not equal / hash-equal', wit)
        ans = [m1.match(n) for n in names]
        for what, mk in (('pickle', lambda: pickle.loads(pickle.dumps(m1))), ('copy.copy', lambda: copy.copy(m1)),
                         ('copy.deepcopy', lambda: copy.deepcopy(m1))):
            try:
                m3 = mk()
                ok = m3 == m1 and hash(m3) == hash(m1) and [m3.match(n) for n in names] == ans
            except Exception as e:  # noqa: BLE001
                ok = False
                wit = dict(wit, exception=repr(e)[:120])
            if not ok:
                ctx.disagree(f'{what} of a compiled matcher is not equal or behaves differently', wit)
        for attr in ('_matcher', '_hash', 'x'):
            try:
                setattr(m1, attr, 1)
                ctx.disagree('a compiled matcher accepted an attribute assignment', dict(wit, attribute=attr))
            except (AttributeError, TypeError):
                pass
        for _ in range(1000):
            last = m1.match(names[0])
        if last != ans[0] or [m1.match(n) for n in names] != ans or m1.filter(names) != [n for n, a in zip(names, ans) if a]:
            ctx.disagree('a matcher answers differently on its 1000th use', wit)
        built.append((m1, ans, c))
    # every public flag, alone and next to REALPATH / GLOBSTAR: copies are the same value (==, hash, set membership) as the original
    from ..common import FLAGN
    if getattr(ctx, 'shard', 0) == 0:
        for mod in (F, G):
            names_ok = [n for n in FLAGN if hasattr(mod, n)]
            for n1 in names_ok:
                for extra in ((), ('REALPATH',), ('GLOBSTAR', 'FOLLOW'), ('NEGATE',)):
                    fl = 0
                    for n in (n1,) + extra:
                        fl |= getattr(mod, n, 0)
                    for pats, kw in (('**/a*', {}), (['*.txt', 'b?'], {'exclude': 'c*'}), (b'**/a*', {})):
                        try:
                            m1 = mod.compile(pats, flags=fl, **kw)
                            again = [mod.compile(pats, flags=fl, **kw) for _ in range(3)]
                        except Exception:  # noqa: BLE001
                            continue
                        ctx.count('matcher_object_checks')
                        if any(not (x == m1 and hash(x) == hash(m1)) for x in again):
                            ctx.disagree('matchers built repeatedly from the same arguments are not equal / hash-equal',
                                         {'mode': 'flag-table', 'module': mod.__name__, 'flags': [n1] + list(extra), 'patterns': repr(pats), 'kw': repr(kw)})
                            break
                        for what, mk in (('pickle', lambda: pickle.loads(pickle.dumps(m1))), ('copy.copy', lambda: copy.copy(m1)),
                                         ('copy.deepcopy', lambda: copy.deepcopy(m1)),
                                         ('pickle protocol 2', lambda: pickle.loads(pickle.dumps(m1, protocol=2)))):
                            ctx.count('matcher_object_checks')
                            try:
                                m3 = mk()
                                ok = m3 == m1 and not (m3 != m1) and hash(m3) == hash(m1) and m3 in {m1}
                                why = 'not equal / hash-equal to the original'
                            except Exception as e:  # noqa: BLE001
                                ok, why = False, 'raised ' + repr(e)[:100]
                            if not ok:
                                ctx.disagree(f'{what} of a compiled matcher is not equal or behaves differently',
                                             {'mode': 'flag-table', 'module': mod.__name__, 'flags': [n1] + list(extra), 'patterns': repr(pats), 'why': why})
                                break
    # matchers that differ only in a non-pattern attribute (REALPATH, FOLLOW) accept different names and are never equal
    if getattr(ctx, 'shard', 0) == 0:
        probe = ['/zz-no-such-dir/x', '/zz-no-such-dir/y/x', 'L/a', 'd/a', 'L/e/ab', 'd/e/ab']
        for pat in ('/zz*/**', '/zz-no-such-dir/*', '/**/x', '**/a*', '**/ab', b'/zz*/**'):
            for fa, fb in ((G.GLOBSTAR, G.GLOBSTAR | G.REALPATH), (G.GLOBSTAR | G.REALPATH, G.GLOBSTAR | G.REALPATH | G.FOLLOW),
                           (G.GLOBSTAR | G.DOTGLOB, G.GLOBSTAR | G.DOTGLOB | G.REALPATH)):
                try:
                    ma, mb = G.compile(pat, flags=fa), G.compile(pat, flags=fb)
                    pr = [x.encode() for x in probe] if isinstance(pat, bytes) else probe
                    with T.Tree(TREE, 'c19e-') as tr_:
                        rd = os.fsencode(tr_.root) if isinstance(pat, bytes) else tr_.root
                        aa = [ma.match(x, root_dir=rd) for x in pr]
                        bb = [mb.match(x, root_dir=rd) for x in pr]
                except Exception:  # noqa: BLE001
                    continue
                ctx.count('matcher_object_checks')
                if aa != bb and (ma == mb or not (ma != mb)):
                    ctx.disagree('two matchers compare equal although they accept different names',
                                 {'mode': 'attribute-pairs', 'pattern': repr(pat), 'flags_a': fa, 'flags_b': fb, 'answers_a': aa, 'answers_b': bb})
    # the same pattern texts distributed differently between inclusions and exclusions (same total number of patterns)
    if getattr(ctx, 'shard', 0) == (1 % max(getattr(ctx, 'nshards', 1), 1)):
        names_ = ['x.a', 'x.b', 'x.c', 'x', '.a', 'a', 'b']
        for mod in (F, G):
            S_, N_, B_ = mod.SPLIT, mod.NEGATE, mod.BRACE
            groups = [
                [(['*.a', '*.b'], 0, {}), (['*.a'], 0, {'exclude': ['*.b']}), (['*.a', '!*.b'], N_, {}), (['*.b', '*.a'], 0, {}), (['*.b'], 0, {'exclude': ['*.a']})],
                [('*.a|*.b', S_, {}), ('*.a|!*.b', S_ | N_, {}), ('!*.a|*.b', S_ | N_, {})],
                [('*.{a,b,c}', B_, {}), (['*.{a,b}', '!*.c'], B_ | N_, {}), (['*.{a,b}'], B_, {'exclude': '*.c'}), (['*.a'], B_, {'exclude': '*.{b,c}'})],
                [(['*', '!*.a', '!*.b'], N_, {}), (['*', '*.a', '!*.b'], N_, {}), (['*'], 0, {'exclude': ['*.a', '*.b']}), (['*', '*.a'], 0, {'exclude': ['*.b']})],
                [([b'*.a', b'*.b'], 0, {}), ([b'*.a'], 0, {'exclude': [b'*.b']})],
            ]
            for grp in groups:
                ms = []
                for pats, fl, kw in grp:
                    try:
                        m_ = mod.compile(pats, flags=fl, **kw)
                        is_b = isinstance(pats[0] if isinstance(pats, list) else pats, bytes)
                        ms.append((m_, tuple(m_.match(n.encode() if is_b else n) for n in names_), repr((pats, fl, kw))))
                    except Exception:  # noqa: BLE001
                        continue
                for i_ in range(len(ms)):
                    for j_ in range(i_ + 1, len(ms)):
                        (ma, va, da), (mb, vb, db) = ms[i_], ms[j_]
                        ctx.count('matcher_object_checks')
                        for what, x, y in (('original', ma, mb), ('pickled', pickle.loads(pickle.dumps(ma)), copy.deepcopy(mb))):
                            eq, ne = (x == y), (x != y)
                            if eq is ne:
                                ctx.disagree('`==` and `!=` of two matchers give the same answer', {'mode': 'structure-pairs', 'a': da, 'b': db, 'which': what})
                            elif va != vb and eq:
                                ctx.disagree('two matchers compare equal although they accept different names',
                                             {'mode': 'structure-pairs', 'a': da, 'b': db, 'answers_a': va, 'answers_b': vb, 'which': what})
                            elif eq and hash(x) != hash(y):
                                ctx.disagree('two equal matchers have different hashes', {'mode': 'structure-pairs', 'a': da, 'b': db, 'which': what})
    # never equal when they accept different names
    for i in range(len(built)):
        for j in range(i + 1, len(built)):
            a, b = built[i], built[j]
            if a[2]['bytes'] != b[2]['bytes']:
                continue
            if a[0] == b[0] and a[1] != b[1]:
                ctx.disagree('two matchers compare equal although they accept different names', {'a': a[2], 'b': b[2]})
    ctx.mark_nontrivial('matcher-objects')


def pickle_main(argv):
    """Entry point of a producer interpreter: compile the matchers of the given call ids and print their pickles."""
    import base64
    seed, ids = int(argv[0]), [int(x) for x in argv[1].split(',')]
    env.import_wcmatch()
    pool = build_pool(seed)
    out = {}
    for i in ids:
        c = pool[i]
        mod = F if c['api'].startswith('fnmatch') else G
        try:
            m = mod.compile(enc(c['pat'], c['bytes']), flags=flags_of(c['flags']))
            out[i] = base64.b64encode(pickle.dumps(m)).decode()
        except Exception as e:  # noqa: BLE001
            out[i] = None
    json.dump(out, sys.stdout)
    return 0


def pickles_across_interpreters(ctx, pool, rng):
    """A matcher pickled by another interpreter (other string-hash seed, other object addresses) is the same value as one built
    here from the same arguments: equal, hash-equal, found in sets/dicts keyed by the local one, same answers."""
    import base64
    cands = [c for c in pool if c['api'].endswith('compile.filter') or c['api'].endswith('.match')]
    sample = rng.sample(cands, min(40, len(cands)))
    ids = [c['id'] for c in sample]
    for hashseed in ('1', '2'):
        cmd = [sys.executable, '-m', 'wcverif.checks.c19', '--pickle', str(ctx.seed), ','.join(map(str, ids))]
        e = dict(os.environ, PYTHONHASHSEED=hashseed, PYTHONDONTWRITEBYTECODE='1', PYTHONPATH=env.VERIF + os.pathsep + env.REPO)
        r = subprocess.run(cmd, cwd=env.VERIF, env=e, capture_output=True, timeout=300)
        if r.returncode != 0:
            ctx.note('pickle producer failed: ' + r.stderr.decode()[-300:])
            return
        got = json.loads(r.stdout.decode())
        for c in sample:
            blob = got.get(str(c['id']))
            if blob is None:
                continue
            mod = F if c['api'].startswith('fnmatch') else G
            try:
                local = mod.compile(enc(c['pat'], c['bytes']), flags=flags_of(c['flags']))
            except Exception:  # noqa: BLE001
                continue
            wit = {'call': c, 'producer_PYTHONHASHSEED': hashseed, 'mode': 'pickle-across-interpreters'}
            ctx.evals()
            ctx.count('cross_interpreter_pickles')
            try:
                m = pickle.loads(base64.b64decode(blob))
                names = enc(NAMES, c['bytes'])
                problems = []
                if not (m == local) or (m != local):
                    problems.append('not equal to the locally built matcher')
                if hash(m) != hash(local):
                    problems.append('hash differs from the locally built matcher')
                if m not in {local} or {local: 1}.get(m) != 1:
                    problems.append('not found in a set / dict keyed by the locally built matcher')
                if [m.match(n) for n in names] != [local.match(n) for n in names]:
                    problems.append('answers differ')
                m2 = pickle.loads(pickle.dumps(m))
                if not (m2 == m and hash(m2) == hash(m)):
                    problems.append('second round trip changes value')
            except Exception as e2:  # noqa: BLE001
                problems = ['unpickling raised ' + repr(e2)[:120]]
            if problems:
                ctx.disagree('a matcher pickled by another interpreter is not the value built here from the same arguments: ' + problems[0],
                             dict(wit, problems=problems))
                return


def mutated_arguments(ctx):
    """The answer depends on the VALUE of the arguments at the time of the call: a caller may reuse and mutate its pattern /
    exclude / name lists between calls; a matcher compiled from a list keeps the patterns it was given."""
    n = 0
    names = ['a', 'b', 'ab', 'ba', '.a', 'a/b', 'b/a']
    for mod, one, flt in ((F, F.fnmatch, F.filter), (G, G.globmatch, G.globfilter)):
        for fl in (0, mod.NEGATE, mod.SPLIT, mod.BRACE | mod.EXTMATCH, mod.IGNORECASE):
            for conv in (lambda x: x, lambda x: [y.encode() for y in x]):
                nm = conv(names)
                for first, second in ((['a*'], ['b*']), (['a*', 'b'], ['?', 'b']), (['*'], ['*', 'zz'])):
                    pats = conv(list(first))
                    fresh2 = conv(list(second))
                    excl = conv(['b*'])
                    calls = [
                        ('one-shot', lambda p: [one(x, p, flags=fl) for x in nm]),
                        ('filter', lambda p: flt(nm, p, flags=fl)),
                        ('compile+filter', lambda p: mod.compile(p, flags=fl).filter(nm)),
                        ('translate', lambda p: mod.translate(p, flags=fl)),
                        ('exclude=', lambda p: flt(nm, conv(['*']), flags=fl, exclude=p)),
                    ]
                    for what, call_ in calls:
                        try:
                            want = call_(list(fresh2))      # the reference first: a list object that is never touched again
                            lst = list(pats)
                            call_(lst)                      # a call with the caller's list object
                            lst[:] = fresh2                 # the caller re-uses its list
                            got = call_(lst)
                            m = mod.compile(lst, flags=fl)
                            before = m.filter(nm)
                            lst[:] = conv(['zz'])           # mutating the list afterwards does not reach into the matcher
                            after = m.filter(nm)
                        except Exception as e:  # noqa: BLE001
                            ctx.disagree(f'mutated argument list: {what} raised {type(e).__name__}', {'mode': 'mutated-arguments', 'call': what})
                            continue
                        n += 2
                        if got != want:
                            ctx.disagree('the answer follows an earlier content of a list argument that the caller has changed since',
                                         {'mode': 'mutated-arguments', 'api': mod.__name__, 'call': what, 'first_content': repr(pats), 'content_now': repr(fresh2),
                                          'observed': repr(got)[:200], 'fresh_list': repr(want)[:200]})
                        if before != after:
                            ctx.disagree('a compiled matcher changes when the list it was built from is mutated',
                                         {'mode': 'mutated-arguments', 'api': mod.__name__, 'before': repr(before), 'after': repr(after)})
                    _ = excl
    ctx.evals(n)
    ctx.count('mutated_argument_checks', n)


def tilde_across_changes(ctx):
    """GLOBTILDE looks the user folder up at every call: the answer follows HOME and the existence of the folder, not what an
    earlier call saw (glob, iglob, globmatch / globfilter / compile / translate with REALPATH; str and bytes)."""
    import shutil
    from .. import env
    _base, root = env.mknested('c19t-')
    old_home = os.environ.get('HOME')
    n = 0
    try:
        homes = [os.path.join(root, 'h1'), os.path.join(root, 'h2')]
        fl = G.GLOBTILDE | G.REALPATH

        def observe(home, exists):
            nonlocal n
            by_hand = G.escape(home) + '/*'
            want = sorted(G.glob(by_hand)) if exists else []
            checks = [
                ('glob', lambda: sorted(G.glob('~/*', flags=G.GLOBTILDE)), want),
                ('iglob bytes', lambda: sorted(os.fsdecode(x) for x in G.iglob(b'~/*', flags=G.GLOBTILDE)), want),
                ('globmatch', lambda: G.globmatch(os.path.join(home, 'f'), '~/*', flags=fl), exists),
                ('globfilter', lambda: G.globfilter([os.path.join(home, 'f')], '~/f', flags=fl), [os.path.join(home, 'f')] if exists else []),
                ('compile', lambda: G.compile('~/?', flags=fl).match(os.path.join(home, 'f')), exists),
                ('translate', lambda: G.translate('~/f', flags=fl), G.translate(G.escape(home) + '/f', flags=G.REALPATH) if exists else None),
            ]
            for what, call_, exp in checks:
                try:
                    got = call_()
                except Exception as e:  # noqa: BLE001
                    got = f'raised {type(e).__name__}'
                n += 1
                if exp is not None and got != exp:
                    ctx.disagree('GLOBTILDE answers from an earlier state of HOME / of the user folder',
                                 {'mode': 'tilde-across-changes', 'call': what, 'home_exists': exists, 'expected': repr(exp)[:200], 'observed': repr(got)[:200]})

        for rnd in range(2):
            for home in homes:
                os.environ['HOME'] = home
                shutil.rmtree(home, ignore_errors=True)
                observe(home, False)
                os.makedirs(home)
                open(os.path.join(home, 'f'), 'w').close()
                observe(home, True)
                shutil.rmtree(home)
                observe(home, False)
                os.makedirs(home)
                open(os.path.join(home, 'f'), 'w').close()
                open(os.path.join(home, 'g'), 'w').close()
                observe(home, True)
    finally:
        if old_home is None:
            os.environ.pop('HOME', None)
        else:
            os.environ['HOME'] = old_home
        shutil.rmtree(root[:-len('/w/x/y/root')], ignore_errors=True)
    ctx.evals(n)
    ctx.count('tilde_change_checks', n)


def matcher_reuse_across_fs(ctx):
    """A compiled REALPATH matcher is a pure function of (its arguments, the file system): reusing one object while the
    file system, the working directory or the directory behind a dir_fd changes must give the answers of a fresh call."""
    n = 0
    for pat, fl in (('**/f', G.GLOBSTAR | G.REALPATH), ('d/**', G.GLOBSTAR | G.REALPATH), ('**/x/**', G.GLOBSTAR | G.REALPATH),
                    ('*/**/f', G.GLOBSTAR | G.REALPATH | G.DOTGLOB), ('**', G.GLOBSTAR | G.REALPATH | G.MATCHBASE)):
        with T.Tree([('d', 'd', None), ('d/x', 'd', None), ('d/x/f', 'f', None), ('real', 'd', None), ('real/x', 'd', None),
                     ('real/x/f', 'f', None)], 'c19a-') as ta, \
                T.Tree([('real', 'd', None), ('real/x', 'd', None), ('real/x/f', 'f', None), ('d', 'l', 'real')], 'c19b-') as tb:
            m = G.compile(pat, flags=fl)
            cands = ['d/x/f', 'd/x', 'd', 'real/x/f', 'd/x/f/']
            steps = []

            def compare(label, **kw):
                nonlocal n
                for c in cands:
                    a = outcome_(lambda: m.match(c, **kw))
                    b = outcome_(lambda: G.globmatch(c, pat, flags=fl, **kw))
                    flt = outcome_(lambda: m.filter([c], **kw))
                    n += 1
                    ctx.evals()
                    if a != b or flt != ([c] if b is True else []):
                        ctx.disagree('a reused compiled matcher answers differently from a fresh call after the file system / root changed',
                                     {'pattern': pat, 'flags': fl, 'step': label, 'candidate': c, 'reused_match': a, 'reused_filter': flt,
                                      'fresh_globmatch': b, 'earlier_steps': steps[:]})
                        return False
                steps.append(label)
                return True

            # 1. same root string, directory replaced by a symlink (and back)
            if not compare('tree A (d is a directory)', root_dir=ta.root):
                continue
            import shutil as _sh
            _sh.rmtree(os.path.join(ta.root, 'd'))
            os.symlink('real', os.path.join(ta.root, 'd'))
            if not compare('tree A after d was replaced by a symlink to real', root_dir=ta.root):
                continue
            os.unlink(os.path.join(ta.root, 'd'))
            os.makedirs(os.path.join(ta.root, 'd', 'x'))
            open(os.path.join(ta.root, 'd', 'x', 'f'), 'w').close()
            if not compare('tree A after d became a directory again', root_dir=ta.root):
                continue
            # 2. no root given: the working directory moves between two trees
            cwd = os.getcwd()
            try:
                os.chdir(tb.root)
                ok = compare('cwd = tree B (d is a symlink)')
                os.chdir(ta.root)
                ok = ok and compare('cwd = tree A (d is a directory)')
            finally:
                os.chdir(cwd)
            if not ok:
                continue
            # 3. the same file descriptor number opened on another directory
            fd = os.open(ta.root, os.O_RDONLY)
            try:
                ok = compare('dir_fd -> tree A', dir_fd=fd)
            finally:
                os.close(fd)
            fd2 = os.open(tb.root, os.O_RDONLY)
            try:
                if fd2 != fd:
                    os.dup2(fd2, fd)
                    os.close(fd2)
                    fd2 = fd
                ok = ok and compare('same dir_fd number -> tree B', dir_fd=fd2)
            finally:
                os.close(fd2)
    ctx.count('matcher_reuse_fs_checks', n)
    ctx.mark_nontrivial('matcher-reuse-fs')


def outcome_(fn):
    try:
        return fn()
    except Exception as e:  # noqa: BLE001
        return ['raised', type(e).__name__]


def run(ctx):
    quick = ctx.quick
    if ctx.shard % 4 == 0:
        matcher_reuse_across_fs(ctx)
    else:
        ctx.count('matcher_reuse_fs_checks', 0)
    pool = build_pool(ctx.seed)
    texts = {}
    for c in pool:
        texts.setdefault(c['pat'], set()).add((tuple(c['flags']), c['bytes'], c['api']))
    with T.Tree(TREE, 'c19-') as tr:
        root = tr.root
        # ---- (b) reference: each call alone with every cache cleared ------------------------------------
        ref = {}
        for c in pool:
            clear_caches()
            ref[c['id']] = eval_call(c, root)
        clear_caches()

        def check(cid, got, history, extra=None):
            ctx.evals()
            if got != ref[cid]:
                c = pool[cid]
                ctx.disagree(f'{c["api"]}: answer depends on the history ({history})',
                             dict({'call': c, 'alone_after_cache_clear': ref[cid], 'observed': got, 'history': history}, **(extra or {})))
                return False
            if len(texts[pool[cid]['pat']]) > 1:
                ctx.mark_nontrivial((history.split(':')[0], cid))
            return True

        # ---- (a) fresh interpreters ------------------------------------------------------------------------
        mine = [c['id'] for c in pool if ctx.mine(c['id'])]
        rng = ctx.rng_for('fresh', ctx.shard)
        # every call of this shard's slice once in an interpreter of its own (the slices partition the pool); in the quick
        # tier the colliding ("hot") calls first, then a sample of the others
        hot_ids = [cid for cid in mine if len(texts[pool[cid]['pat']]) > 2]
        cold_ids = [cid for cid in mine if cid not in set(hot_ids)]
        todo = hot_ids + (rng.sample(cold_ids, min(len(cold_ids), 10)) if quick else cold_ids)
        for cid in todo:
            if ctx.out_of_time() and quick and ctx.counters.get('fresh_interpreter_calls', 0) > 30:
                break
            with ctx.case(timeout=120, label=('fresh', cid)):
                got = run_fresh(ctx.seed, root, [cid])[cid]
                ctx.count('fresh_interpreter_calls')
                check(cid, got, 'fresh-interpreter:single-call')
        with ctx.case(timeout=300, label='fresh-slice'):
            order = list(reversed(mine))
            got = run_fresh(ctx.seed, root, order)
            ctx.count('fresh_interpreter_calls', len(order))
            for cid in order:
                check(cid, got[cid], 'fresh-interpreter:reversed-slice', {'slice_size': len(order)})
        # ---- (c) call sequences without clearing -------------------------------------------------------------
        nseq = 0
        limit = 6 if quick else 10 ** 9
        while nseq < limit and not ctx.out_of_time():
            nseq += 1
            rs = ctx.rng_for('seq', ctx.shard, nseq)
            clear_caches()
            seq = [rs.choice(pool) for _ in range(rs.randint(200, 400))]
            # make collisions likely: interleave calls that share a text
            hot = [c for c in pool if len(texts[c['pat']]) > 2]
            for i in range(0, len(seq), 3):
                seq[i] = rs.choice(hot)
            before = cache_info()
            evicted = False
            for c in seq:
                got = eval_call(c, root)
                ctx.count('sequence_calls')
                if not check(c['id'], got, f'sequence:{ctx.shard}.{nseq}', {'sequence_length': len(seq)}):
                    break
                info = cache_info()
                if info.maxsize is None or (info.currsize == info.maxsize and info.misses - before.misses > info.maxsize):
                    evicted = True
            info = cache_info()
            ctx.count('cache_hits_seen', info.hits - before.hits if info.maxsize is not None else 1)
            if evicted:
                ctx.count('cache_evictions_seen')
        # a long sequence over the whole pool: guarantees evictions
        with ctx.case(timeout=300, label='whole-pool'):
            clear_caches()
            before = cache_info()
            order = list(pool)
            ctx.rng_for('whole', ctx.shard).shuffle(order)
            for c in order:
                got = eval_call(c, root)
                ctx.count('sequence_calls')
                if not check(c['id'], got, f'sequence:whole-pool.{ctx.shard}'):
                    break
            info = cache_info()
            ctx.count('cache_hits_seen', info.hits - before.hits if info.maxsize is not None else 1)
            if info.maxsize is None or (info.currsize == info.maxsize and info.misses - before.misses > info.maxsize):
                ctx.count('cache_evictions_seen')
        # ---- (d) threads ---------------------------------------------------------------------------------------
        signatures = set()
        rounds = 2 if quick else 12
        for rd in range(rounds):
            if ctx.out_of_time() and rd > 0:
                break
            clear_caches()
            inj = YieldInjector(f'{ctx.seed}-{ctx.shard}-{rd}')
            old = sys.getswitchinterval()
            results = []
            lock = threading.Lock()
            trace = []
            calls = [ctx.rng_for('thr', ctx.shard, rd, t).sample(pool, 120 if quick else 250) for t in range(8)]

            def worker(tid, todo):
                for c in todo:
                    got = eval_call(c, root)
                    with lock:
                        results.append((c['id'], got, tid))
                        trace.append(tid)

            sys.setswitchinterval(1e-6)
            inj.start()
            try:
                ths = [threading.Thread(target=worker, args=(t, calls[t])) for t in range(8)]
                for t in ths:
                    t.start()
                for t in ths:
                    t.join()
            finally:
                inj.stop()
                sys.setswitchinterval(old)
            ctx.count('forced_yields', inj.count)
            signatures.add(tuple(trace[:200]))
            for cid, got, tid in results:
                ctx.count('thread_calls')
                if not check(cid, got, f'threads:{ctx.shard}.{rd}', {'thread': tid}):
                    break
        ctx.count('distinct_interleavings', len(signatures))
        # ---- matcher objects --------------------------------------------------------------------------------------
        matcher_objects(ctx, pool, ctx.rng_for('mo', ctx.shard))
        pickles_across_interpreters(ctx, pool, ctx.rng_for('px', ctx.shard))
        if ctx.shard == 0:
            mutated_arguments(ctx)
            tilde_across_changes(ctx)
        else:
            ctx.count('mutated_argument_checks', 0)
        if ctx.shard == 0:
            ctx.sample({'pool_size': len(pool), 'distinct_texts': len(texts), 'example_calls': pool[:3],
                        'texts_under_several_flag_sets': sum(1 for v in texts.values() if len(v) > 1)})


def replay(ctx, w):
    if w.get('mode') == 'tilde-across-changes':
        tilde_across_changes(ctx)
        return ctx.violations or None
    if w.get('mode') == 'mutated-arguments':
        mutated_arguments(ctx)
        return ctx.violations or None
    if w.get('mode') == 'pickle-across-interpreters':
        pool = build_pool(ctx.seed)
        for sh in range(16):
            pickles_across_interpreters(ctx, pool, random.Random(sh))
            if ctx.violations:
                break
        return ctx.violations or None
    if 'call' not in w:
        pool = build_pool(0)
        matcher_objects(ctx, pool, random.Random(0))
        return ctx.violations or None
    c = w['call']
    with T.Tree(TREE, 'c19r-') as tr:
        pool0 = build_pool(ctx.seed)
        alone = None
        if 'id' in c and c['id'] < len(pool0) and pool0[c['id']]['pat'] == c['pat'] and pool0[c['id']]['flags'] == list(c['flags']):
            # the answer of an interpreter that has done nothing else is the reference
            alone = run_fresh(ctx.seed, tr.root, [c['id']])[c['id']]
            # (this process has not evaluated the call yet: state that no cache clear reaches is still untouched)
            for other in [x for x in pool0 if x['pat'] == c['pat'] and x['id'] != c['id']][:60]:
                eval_call(other, tr.root)
            got = eval_call(c, tr.root)
            if got != alone:
                ctx.disagree('answer depends on the history (replay: calls with the same text first)',
                             {'call': c, 'fresh_interpreter': alone, 'observed': got})
                return ctx.violations
        # the recorded answer alone after a cache clear is the reference; re-create a colliding history
        if alone is None:
            clear_caches()
            alone = eval_call(c, tr.root)
        pool = build_pool(ctx.seed)
        rng = random.Random(0)
        for _ in range(3):
            clear_caches()
            for x in rng.sample(pool, 400):
                if x['pat'] == c['pat'] or rng.random() < 0.5:
                    eval_call(x, tr.root)
            got = eval_call(c, tr.root)
            if got != alone:
                ctx.disagree('answer depends on the history (replay)', {'call': c, 'alone_after_cache_clear': alone, 'observed': got})
                break
        fresh = run_fresh(ctx.seed, tr.root, [c['id']]).get(c['id']) if 'id' in c and c['id'] < len(pool) and pool[c['id']]['pat'] == c['pat'] else alone
        if fresh != alone:
            ctx.disagree('answer in a fresh interpreter differs (replay)', {'call': c, 'alone_after_cache_clear': alone, 'fresh': fresh})
    return ctx.violations or None


if __name__ == '__main__':
    if len(sys.argv) > 1 and sys.argv[1] == '--fresh':
        import warnings
        warnings.simplefilter('ignore')
        sys.exit(fresh_main(sys.argv[2:]))
    if len(sys.argv) > 1 and sys.argv[1] == '--pickle':
        import warnings
        warnings.simplefilter('ignore')
        sys.exit(pickle_main(sys.argv[2:]))
