"""C15 - a WcMatch object can be killed, reset and re-run with prefix-exact results (DESIGN.md section 5, C15)."""
import itertools
import os
import sys
import threading

from .. import tree as T
from wcmatch import wcmatch as WM

SPEC = {
    'level': 'fault_enumeration',
    'rule': ('a recording subclass of the real WcMatch logs every hook invocation and every yielded value; for each generated '
             'tree the uninterrupted run R is taken, then (1) kill() is issued from every hook invocation k = 0..n (exhaustive per '
             'tree), (2) between every two yields, (3) by a sys.monitoring LINE callback at every line event of wcmatch/wcmatch.py '
             'during the run (a deterministic stand-in for another thread) and from a real second thread, (4) each overridable hook '
             'raises at each position, (5) every call sequence up to the length bound over {match, imatch-to-completion, '
             'imatch-abandoned-after-1, kill, reset, is_aborted} is executed on one object; each history is checked against a small '
             'sequential model: results are a prefix of R, after a kill only values of the file being processed may still appear '
             '(none after a directory hook), the object stays aborted until reset(), full runs repeat identically with on_reset '
             'once per run and the same get_skipped(), every visited file reaches exactly one of on_match/on_skip, hook return '
             'values pass through unchanged. A case is one history; it is non-trivial when it contains a kill that truncates R.'),
    'bounds': {'quick': {'trees_per_shard': 16, 'sequence_length': 4, 'sequences': 'all 6^1..6^4 sharded'},
               'thorough': {'trees': 'until the time budget', 'sequence_length': 6}},
    'floor': {'quick': 3000, 'thorough': 40000},
    'required_counters': ['pass_through_runs', 'abort_points_hook', 'abort_points_between_yields', 'abort_points_line', 'thread_kills', 'raising_hook_runs',
                          'call_sequences', 'truncating_kills'],
    'budget': {'quick': 45, 'thorough': 480},
    'shard_timeout': {'quick': 400, 'thorough': 1500},
    'assumptions': ['one live iterator per object at a time', 'a kill that lands between two lines may let the file the loop has already '
                    'picked finish (all of its values, nothing else)'],
}


class Kill(Exception):
    pass


class Boom(Exception):
    """Raised by a hook on purpose."""


class Rec(WM.WcMatch):
    """Recording subclass; hook return values carry the file identity so that yields can be attributed."""

    def on_init(self, **kw):
        self.log = []
        self.kill_at = None
        self.raise_at = None
        self.raise_in = None
        self.resets = 0
        self.n = 0

    def _tick(self, kind, base, name):
        i = self.n
        self.n += 1
        self.log.append((kind, os.path.join(base, name)))
        if self.kill_at is not None and i == self.kill_at:
            self.kill_kind = kind
            self.kill_file = os.path.join(base, name)
            self.kill()
        if self.raise_at is not None and i == self.raise_at and (self.raise_in is None or kind == self.raise_in):
            self.raised_kind = kind
            self.raised_file = os.path.join(base, name)
            raise Boom(kind)

    def on_reset(self):
        self.resets += 1
        self.log.append(('reset', ''))

    def on_validate_directory(self, base, name):
        self._tick('vdir', base, name)
        return True

    def on_validate_file(self, base, name):
        self._tick('vfile', base, name)
        return True

    quiet = False     # quiet: on_skip / on_error return None, as the default hooks do

    def on_skip(self, base, name):
        self._tick('skip', base, name)
        return None if self.quiet else ('skip', os.path.join(base, name))

    def on_error(self, base, name):
        self._tick('error', base, name)
        return None if self.quiet else ('error', os.path.join(base, name))

    def on_match(self, base, name):
        self._tick('match', base, name)
        return ('match', os.path.join(base, name))


class QuietRec(Rec):
    quiet = True


class Sentinel:
    def __repr__(self):
        return '<sentinel>'


PECULIAR = [0, '', False, (), b'', 0.0, [], {}, Sentinel(), ('x',), 'v', None, 1, frozenset(), None]


class ValRec(Rec):
    """Hooks return peculiar values (falsy but not None, unhashable, identical objects): what the run yields must be exactly the
    values the hooks returned (on_skip / on_error: None means 'nothing'), the same objects in the same order."""

    def on_init(self, **kw):
        super().on_init(**kw)
        self.returned = []
        self.vi = kw.get('offset', 0)

    def _value(self, always=False):
        v = PECULIAR[self.vi % len(PECULIAR)]
        self.vi += 1
        if v is not None or always:
            self.returned.append(v)
        return v

    def on_skip(self, base, name):
        self._tick('skip', base, name)
        return self._value()

    def on_error(self, base, name):
        self._tick('error', base, name)
        return self._value()

    def on_match(self, base, name):
        self._tick('match', base, name)
        return self._value(always=True)     # whatever on_match returns is the result for that file, None included


def fresh(root, pat, excl, flags, quiet=False):
    return (QuietRec if quiet else Rec)(root, pat, excl, flags)


def begin(w):
    w.log = []
    w.n = 0
    w.kill_at = w.raise_at = None
    w.raise_in = None


def file_of(v):
    return v[1]


def one_file_each(ctx, log, wit):
    """Every visited file reaches exactly one of on_match / on_skip."""
    seen = {}
    for kind, f in log:
        if kind in ('match', 'skip'):
            seen[f] = seen.get(f, 0) + 1
    bad = [f for f, n in seen.items() if n != 1]
    if bad:
        ctx.disagree('a visited file reaches on_match/on_skip more than once', dict(wit, files=bad[:5]))


def check_tree(ctx, tr, rng, k, quick):
    root = tr.root
    pat = rng.choice(['*', '*.d|a*', '!b', 'a|b|ab', '*|!a', ''])
    excl = rng.choice(['', '', 'b', '.h', 'a*'])
    flags = WM.RECURSIVE | (WM.HIDDEN if rng.random() < 0.6 else 0) | (WM.FILEPATHNAME | WM.GLOBSTAR if rng.random() < 0.2 else 0)
    if not tr.has_dir_cycle() and k % 2 == 0:
        flags |= WM.SYMLINKS       # symlinked directories are walked too: a second run walks them again
        ctx.count('symlink_following_trees')
    wit0 = {'tree': tr.spec, 'file_pattern': pat, 'exclude_pattern': excl, 'flags': flags}
    w = fresh(root, pat, excl, flags)
    begin(w)
    R = w.match()
    w0_R = R
    base_log = list(w.log)
    nhooks = w.n
    skipped0 = w.get_skipped()
    ctx.evals()
    # -- values returned by the hooks are passed through unchanged (falsy, unhashable, repeated objects; None alone is dropped)
    for off in (k % len(PECULIAR), (k * 7 + 3) % len(PECULIAR)):
        for use_imatch in (False, True):
            wv = ValRec(root, pat, excl, flags, offset=off)
            begin(wv)
            wv.returned = []
            wv.raise_at, wv.raise_in = ((k + off) % max(nhooks, 1), 'vfile') if off % 2 else (None, None)
            if off % 2 and use_imatch:
                # a folder validation that raises: its on_error value is a result like any other
                ticks = [e for e in base_log if e[0] != 'reset']
                vd = [i for i, e in enumerate(ticks) if e[0] == 'vdir']
                if vd:
                    wv.raise_at, wv.raise_in = vd[(k + off) % len(vd)], 'vdir'
                    ctx.count('pass_through_folder_errors')
            got_v = list(wv.imatch()) if use_imatch else wv.match()
            ctx.evals()
            ctx.count('pass_through_runs')
            if len(got_v) != len(wv.returned) or any(a is not b for a, b in zip(got_v, wv.returned)):
                ctx.disagree('values returned by on_match / on_skip / on_error are not passed through unchanged',
                             dict(wit0, mode='pass-through', offset=off, imatch=use_imatch, returned=[repr(x) for x in wv.returned[:12]],
                                  yielded=[repr(x) for x in got_v[:12]]))
                break
    # -- repeated full runs ------------------------------------------------------------------
    for _ in range(2):
        r0 = w.resets
        begin(w)
        again = list(w.imatch())
        if again != R or w.log != base_log or w.get_skipped() != skipped0 or w.resets != r0 + 1:
            ctx.disagree('repeated runs of one object differ', dict(wit0, first=R[:10], again=again[:10], skipped=[skipped0, w.get_skipped()],
                                                                    resets=w.resets - r0))
            return
    one_file_each(ctx, base_log, wit0)
    for v in R:
        if not (isinstance(v, tuple) and v[0] in ('match', 'skip', 'error')):
            ctx.disagree('a hook return value does not pass through unchanged', dict(wit0, value=repr(v)))
    # -- (1) kill from every hook invocation (hooks that return values, then quiet hooks) -------------
    truncating = 0
    wq = fresh(root, pat, excl, flags, quiet=True)
    begin(wq)
    Rq = wq.match()
    for quiet, Rx in ((False, R), (True, Rq)):
      for kpt in range(nhooks + 1):
        ctx.evals()
        ctx.count('abort_points_hook')
        w = fresh(root, pat, excl, flags, quiet)
        begin(w)
        w.kill_at = kpt
        out = []
        pos_at_kill = None
        for v in w.imatch():
            out.append(v)
        wit = dict(wit0, kill_at_hook=kpt, hooks_total=nhooks, quiet_hooks=quiet)
        R = Rx
        if out != R[:len(out)]:
            ctx.disagree('killed run is not a prefix of the uninterrupted run', dict(wit, got=out[:10], full=R[:10]))
            continue
        if kpt < nhooks:
            kind, f = w.kill_kind, w.kill_file
            # yields that happened after the kill: those whose producing hook came at or after kpt
            idx = 0
            after = []
            hook_i = 0
            # replay the log to find which yields were produced at/after the killing hook
            produced = [(i, e) for i, e in enumerate([e for e in w.log if e[0] != 'reset']) if e[0] in ('match', 'skip', 'error')]
            after = [e for i, e in produced if i >= kpt]
            _ = idx, hook_i, pos_at_kill
            if not w.is_aborted():
                ctx.disagree('object is not aborted after kill()', wit)
            if len(out) < len(R):
                truncating += 1
            if kind == 'vdir' or (kind == 'error' and f not in [x[1] for x in base_log if x[0] in ('vfile', 'match', 'skip')]):
                if after and any(e[1] != f for e in after):
                    ctx.disagree('after kill() from a directory hook further files are still processed',
                                 dict(wit, killing_hook=[kind, f], processed_after=[list(e) for e in after[:4]]), 'KF-KILL-IN-DIR-HOOK')
            else:
                if any(e[1] != f for e in after):
                    ctx.disagree('after kill() from a file hook values of another file are still yielded',
                                 dict(wit, killing_hook=[kind, f], processed_after=[list(e) for e in after[:4]]))
            # stays aborted until reset
            begin(w)
            if w.match() != []:
                ctx.disagree('an aborted object yields results before reset()', wit)
            w.reset()
            begin(w)
            if w.match() != R:
                ctx.disagree('after reset() the run is not complete again', wit)
        elif out != R:
            ctx.disagree('run without kill differs', wit)
    R = Rx = None
    R = w0_R
    ctx.count('truncating_kills', truncating)
    # -- (2) kill between yields ------------------------------------------------------------------
    for jpt in range(len(R) + 1):
        ctx.evals()
        ctx.count('abort_points_between_yields')
        w = fresh(root, pat, excl, flags)
        begin(w)
        out = []
        if jpt == 0:
            w.kill()
        for v in w.imatch():
            out.append(v)
            if len(out) == jpt:
                w.kill()
        if out != R[:jpt] and not (jpt > 0 and out == R[:len(out)] and len(out) <= jpt + 1 and
                                   len(out) > jpt - 1 and len(out) >= jpt and
                                   (len(out) == jpt or file_of(out[-1]) == file_of(out[jpt - 1]))):
            ctx.disagree('kill between two yields: more than the current file\'s values follow, or not a prefix',
                         dict(wit0, kill_after_yield=jpt, got=len(out), full=len(R)))
    # -- (3) kill at every LINE event of wcmatch.py + from a real thread ------------------------------
    line_kills(ctx, root, pat, excl, flags, R, wit0, limit=(120 if quick else 2000))
    thread_kills(ctx, root, pat, excl, flags, R, wit0, rng, n=(6 if quick else 30))
    # -- (4) raising hooks -----------------------------------------------------------------------------
    for kind in ('vdir', 'vfile', 'skip', 'match', 'error'):
        for kpt in range(0, nhooks, max(1, nhooks // (12 if quick else 60))):
            ctx.evals()
            ctx.count('raising_hook_runs')
            w = fresh(root, pat, excl, flags)
            begin(w)
            w.raise_at, w.raise_in = kpt, kind
            out, exc = [], None
            try:
                for v in w.imatch():
                    out.append(v)
            except Boom as e:
                exc = e
            wit = dict(wit0, raising_hook=kind, at=kpt)
            if kind in ('vdir', 'vfile'):
                if exc is not None:
                    ctx.disagree('an exception raised by a validation hook escapes instead of reaching on_error', wit)
                    continue
                if hasattr(w, 'raised_kind'):
                    if ('error', w.raised_file) not in w.log:
                        ctx.disagree('a raising validation hook does not reach on_error', wit)
                    elif ('error', w.raised_file) not in out:
                        # what on_error returned for it (a folder or a file) is part of the results
                        ctx.disagree('the value on_error returned for an entry whose validation raised is not yielded', dict(wit, yielded=len(out)))
                    ctx.count('error_records_' + kind)
                    if kind == 'vfile':
                        routed = [e for e in w.log if e[1] == w.raised_file and e[0] in ('match', 'skip')]
                        if len(routed) != 1:
                            ctx.disagree('a file whose validation raised is not routed to exactly one of on_match/on_skip', dict(wit, routed=routed))
                        elif routed[0][0] != 'skip':
                            # a file that could not be validated is not a match, whatever happened to the file before it
                            ctx.disagree('a file whose validation raised is reported as a match', dict(wit, routed=routed))
                        else:
                            base_matched = ('match', w.raised_file) in base_log
                            if w.get_skipped() != skipped0 + (1 if base_matched else 0):
                                ctx.disagree('get_skipped() does not count a file whose validation raised',
                                             dict(wit, skipped=w.get_skipped(), undisturbed_run=skipped0, was_a_match=base_matched))
                    one_file_each(ctx, w.log, wit)
            else:
                if hasattr(w, 'raised_kind') and exc is None:
                    ctx.disagree('an exception raised by on_match/on_skip/on_error is swallowed', wit)
            if kind in ('vdir', 'vfile'):
                # the same validation hook kills and then raises: apart from the error / skip routing of that very entry,
                # no further file or directory is looked at
                ctx.count('raising_hook_runs')
                w2 = fresh(root, pat, excl, flags)
                begin(w2)
                w2.raise_at, w2.raise_in, w2.kill_at = kpt, kind, kpt
                try:
                    list(w2.imatch())
                except Boom:
                    pass
                if hasattr(w2, 'raised_kind') and getattr(w2, 'kill_file', None) == w2.raised_file:
                    cut = next(i for i, e in enumerate(w2.log) if e == (kind, w2.raised_file)) if (kind, w2.raised_file) in w2.log else None
                    later = [e for e in (w2.log[cut + 1:] if cut is not None else []) if e[1] != w2.raised_file]
                    if later:
                        ctx.disagree('after kill() in a validation hook that then raises, further entries are still processed',
                                     dict(wit, killed_and_raised_at=w2.raised_file, later_events=later[:6]))
                w2.reset()
                if kind == 'vfile':
                    # kill() from the validation hook that raises, or from the on_error call that follows: the file being
                    # processed is still routed to on_skip (exactly once) and counted
                    for kill_offset in (0, 1):
                        w3 = fresh(root, pat, excl, flags)
                        begin(w3)
                        w3.raise_at, w3.raise_in, w3.kill_at = kpt, kind, kpt + kill_offset
                        try:
                            list(w3.imatch())
                        except Boom:
                            pass
                        ctx.count('raising_hook_runs')
                        if hasattr(w3, 'raised_kind') and getattr(w3, 'kill_file', None) == w3.raised_file:
                            routed3 = [e for e in w3.log if e[1] == w3.raised_file and e[0] in ('match', 'skip')]
                            if routed3 != [('skip', w3.raised_file)]:
                                ctx.disagree('a file whose validation raised while the walk was being killed is not routed to on_skip exactly once',
                                             dict(wit, killed_in='on_validate_file' if kill_offset == 0 else 'on_error', routed=routed3,
                                                  hooks=[e[0] for e in w3.log if e[1] == w3.raised_file]))
                        w3.reset()
            # whatever happened, the object can be re-run completely
            begin(w)
            if w.is_aborted():
                ctx.disagree('a raising hook leaves the object aborted', wit)
            r = w.match()
            if r != R:
                ctx.disagree('after a hook raised, the next run is not complete', dict(wit, got=len(r), full=len(R)))
    ctx.mark_nontrivial(('tree', ctx.shard, k)) if truncating else None
    if k % 3 == 0:
        ctx.sample({'tree': tr.spec, 'file_pattern': pat, 'flags': flags, 'hooks_in_full_run': nhooks, 'yields': len(R),
                    'abort_points': nhooks + 1 + len(R) + 1})


def lenient_ok(out, R, y0):
    """Kill at an arbitrary moment: prefix of R, and everything after the kill belongs to a single file."""
    if out != R[:len(out)]:
        return False
    extra = out[y0:]
    return len({file_of(v) for v in extra}) <= 1 and len(extra) <= 3


def line_kills(ctx, root, pat, excl, flags, R, wit0, limit):
    mon = getattr(sys, 'monitoring', None)
    if mon is None:
        return
    tool = mon.PROFILER_ID
    target = os.path.realpath(WM.__file__)
    # count line events of a full run first
    state = {'n': 0, 'kill': None, 'obj': None, 'y0': None, 'out': None}

    def on_line(code, line):
        if code.co_filename != target and os.path.realpath(code.co_filename) != target:
            return mon.DISABLE
        i = state['n']
        state['n'] += 1
        if state['kill'] is not None and i == state['kill']:
            state['y0'] = len(state['out'])
            state['obj'].kill()
        return None

    mon.use_tool_id(tool, 'wcverif-kill')
    try:
        mon.register_callback(tool, mon.events.LINE, on_line)
        mon.set_events(tool, mon.events.LINE)
        w = fresh(root, pat, excl, flags)
        begin(w)
        state.update(n=0, kill=None, obj=w, out=[])
        for v in w.imatch():
            state['out'].append(v)
        total = state['n']
        step = max(1, total // limit)
        for kpt in range(0, total, step):
            mon.restart_events()
            w = fresh(root, pat, excl, flags)
            begin(w)
            state.update(n=0, kill=kpt, obj=w, out=[], y0=None)
            for v in w.imatch():
                state['out'].append(v)
            ctx.evals()
            ctx.count('abort_points_line')
            if state['y0'] is None:
                continue
            if not lenient_ok(state['out'], R, state['y0']):
                ctx.disagree('kill() delivered between two lines of wcmatch.py: result is not a prefix / other files follow',
                             dict(wit0, line_event=kpt, of=total, yields_at_kill=state['y0'], got=len(state['out']), full=len(R)))
            if not w.is_aborted():
                ctx.disagree('object is not aborted after an injected kill()', dict(wit0, line_event=kpt))
    finally:
        mon.set_events(tool, 0)
        mon.register_callback(tool, mon.events.LINE, None)
        mon.free_tool_id(tool)


def thread_kills(ctx, root, pat, excl, flags, R, wit0, rng, n):
    for _ in range(n):
        w = fresh(root, pat, excl, flags)
        begin(w)
        spin = rng.randint(0, 4000)
        out = []
        marker = {}

        def killer():
            x = 0
            for _i in range(spin):
                x += 1
            marker['y0'] = len(out)
            w.kill()
            marker['y1'] = len(out)

        t = threading.Thread(target=killer)
        old = sys.getswitchinterval()
        sys.setswitchinterval(1e-6)
        try:
            t.start()
            for v in w.imatch():
                out.append(v)
            t.join()
        finally:
            sys.setswitchinterval(old)
        ctx.evals()
        ctx.count('thread_kills')
        y0 = marker.get('y0', 0)
        # the other thread read len(out) just before and just after kill(): the kill landed somewhere in between
        if not any(lenient_ok(out, R, y) for y in range(y0, min(len(out), marker.get('y1', y0)) + 1)):
            ctx.disagree('kill() from another thread: result is not a prefix / other files follow',
                         dict(wit0, yields_at_kill=y0, got=len(out), full=len(R)))


OPS = ('match', 'imatch', 'abandon', 'kill', 'reset', 'is_aborted', 'create', 'consume')


def sequences(ctx, tr, maxlen):
    """All call sequences up to maxlen on one object vs the sequential model."""
    root = tr.root
    # a file pattern under which the full run both returns and skips something (the skipped counter must be observable)
    spat = '*'
    for cand in ('a*|b*', '*a*', '!a*', '*.d|a|b', '?', '*'):
        w0 = fresh(root, cand, '', WM.RECURSIVE | WM.HIDDEN)
        R = w0.match()
        skipped = w0.get_skipped()
        spat = cand
        if R and skipped:
            break
    idx = 0
    for n in range(1, maxlen + 1):
        for seq in itertools.product(OPS, repeat=n):
            idx += 1
            if not ctx.mine(idx):
                continue
            if ctx.out_of_time():
                return
            w = fresh(root, spat, '', WM.RECURSIVE | WM.HIDDEN)
            aborted = False
            pending = []
            runs_done = 0
            model_sk = 0          # what get_skipped() must report (None: a partly consumed run, not modelled)
            ctx.evals()
            ctx.count('call_sequences')
            for si, op in enumerate(seq):
                r0 = w.resets
                n0 = len(w.log)
                was_aborted = aborted
                if op == 'create':
                    # an iterator that is created now and consumed later: its run (reset, counter, result) happens when it is consumed
                    pending.append(w.imatch())
                    ok = True
                elif op == 'consume':
                    if not pending:
                        continue
                    got = list(pending.pop(0))
                    runs_done += 1
                    exp = [] if aborted else R
                    ok = got == exp and (aborted or w.get_skipped() == skipped)
                elif op in ('match', 'imatch'):
                    runs_done += 1
                    got = w.match() if op == 'match' else list(w.imatch())
                    exp = [] if aborted else R
                    ok = got == exp and w.resets == r0 + 1 and (aborted or w.get_skipped() == skipped)
                elif op == 'abandon':
                    runs_done += 1
                    it = w.imatch()
                    first = next(it, None)
                    it.close()
                    ok = (first is None) if (aborted or not R) else (first == R[0])
                    ok = ok and w.resets == r0 + 1
                elif op == 'kill':
                    w.kill()
                    aborted = True
                    ok = True
                elif op == 'reset':
                    w.reset()
                    aborted = False
                    ok = True
                else:
                    ok = w.is_aborted() is aborted
                # the skipped count belongs to the last run: kill(), reset(), is_aborted() and creating an iterator leave it alone
                if op in ('match', 'imatch', 'consume'):
                    model_sk = 0 if was_aborted else skipped
                elif op == 'abandon':
                    model_sk = None if not was_aborted else 0
                if ok and model_sk is not None and w.get_skipped() != model_sk:
                    ctx.disagree('get_skipped() changes without a run (or does not report the last run)',
                                 {'tree': tr.spec, 'sequence': list(seq), 'failing_step': si, 'reported': w.get_skipped(), 'last_run': model_sk})
                    break
                if ok and was_aborted and op in ('match', 'imatch', 'consume', 'abandon'):
                    # a run started on an aborted object looks at nothing: no file or directory reaches a hook
                    touched = [e for e in w.log[n0:] if e[0] != 'reset']
                    if touched:
                        ctx.disagree('a run on an aborted object still validates entries',
                                     {'tree': tr.spec, 'sequence': list(seq), 'failing_step': si, 'hook_events': touched[:6]})
                        break
                if not ok:
                    ctx.disagree(f'call history disagrees with the sequential model at `{op}`',
                                 {'tree': tr.spec, 'sequence': list(seq), 'failing_step': si, 'model_aborted': aborted})
                    break
            else:
                if not (runs_done <= w.resets <= runs_done + len(pending)):
                    ctx.disagree('on_reset is not called once per run',
                                 {'tree': tr.spec, 'sequence': list(seq), 'runs': runs_done, 'unconsumed_iterators': len(pending), 'resets': w.resets})
            if 'kill' in seq:
                ctx.mark_nontrivial(seq)


def degenerate_roots(ctx):
    """A root that is no directory (a missing path, with or without a closing separator, a regular file, the empty text): every run still
    calls on_reset once, yields nothing, counts nothing, and kill / reset behave as on any other object."""
    if ctx.shard != 2 % max(ctx.nshards, 1):
        ctx.count('degenerate_root_runs', 0)
        return
    with T.Tree([('f', 'f', None), ('d', 'd', None), ('d/g', 'f', None)], 'c15d-') as tr:
        roots = [os.path.join(tr.root, 'missing'), os.path.join(tr.root, 'missing') + '/', os.path.join(tr.root, 'f'), os.path.join(tr.root, 'f') + '/',
                 os.path.join(tr.root, 'd', 'nope', 'deeper'), os.fsencode(os.path.join(tr.root, 'missing'))]
        for r in roots:
            for flags in (WM.RECURSIVE, 0, WM.RECURSIVE | WM.HIDDEN | WM.SYMLINKS):
                b = isinstance(r, bytes)
                with ctx.case(label=('degenerate-root', repr(r), flags)):
                    w = Rec(r, b'*' if b else '*', b'' if b else '', flags)
                    begin(w)
                    runs = []
                    for call_ in (lambda: w.match(), lambda: list(w.imatch()), lambda: (w.kill(), w.match())[1], lambda: (w.reset(), list(w.imatch()))[1]):
                        r0 = w.resets
                        try:
                            out = call_()
                        except Exception as e:  # noqa: BLE001
                            out = f'raised {type(e).__name__}'
                        runs.append((out, w.resets - r0, w.get_skipped(), w.is_aborted()))
                    ctx.evals(4)
                    ctx.count('degenerate_root_runs', 4)
                    want = [([], 1, 0, False), ([], 1, 0, False), ([], 1, 0, True), ([], 1, 0, False)]
                    if runs != want:
                        ctx.disagree('a run over a root that is no directory does not behave like an empty walk (results, one on_reset per run, skipped count, aborted state)',
                                     {'tree': tr.spec, 'root': repr(r)[-40:], 'flags': flags, 'observed (result, on_reset calls, skipped, aborted)': repr(runs), 'expected': repr(want)})
        # and the empty text / `.` as root are the working directory
        cwd = os.getcwd()
        os.chdir(tr.root)
        try:
            for r in ('', '.', './', b'', b'.'):
                b = isinstance(r, bytes)
                w = Rec(r, b'*' if b else '*', None, WM.RECURSIVE)
                begin(w)
                out = sorted(os.path.normpath(os.fsdecode(v[1])) for v in w.match() if v[0] == 'match')
                ctx.evals()
                ctx.count('degenerate_root_runs')
                if out != ['d/g', 'f'] or w.resets != 1:
                    ctx.disagree('a run over the working directory spelled as an empty text or `.` misses files or on_reset',
                                 {'tree': tr.spec, 'root': repr(r), 'matches': out, 'on_reset_calls': w.resets})
        finally:
            os.chdir(cwd)
        ctx.mark_nontrivial(('degenerate-roots',))


def run(ctx):
    quick = ctx.quick
    degenerate_roots(ctx)
    k = 0
    limit = 16 if quick else 10 ** 9
    # (5) call sequences on one small fixed tree (sharded exhaustively)
    seq_spec = [('a', 'f', None), ('b', 'd', None), ('b/c.d', 'f', None), ('b/.h', 'f', None), ('ab', 'f', None), ('b/a', 'd', None), ('b/a/a', 'f', None)]
    with T.Tree(seq_spec, 'c15s-') as tr:
        sequences(ctx, tr, 4 if quick else 6)
    while k < limit and not ctx.out_of_time():
        k += 1
        rng = ctx.rng_for('t', ctx.shard, k)
        spec = T.gen_spec(rng, max_entries=12, link_kinds=['file', 'dir', 'dangling', 'sibling'])
        with T.Tree(spec, 'c15-') as tr:
            with ctx.case(timeout=120, label=('tree', ctx.shard, k)):
                check_tree(ctx, tr, rng, k, quick)
    ctx.count('trees', k)
    for c in ('abort_points_line', 'thread_kills', 'truncating_kills', 'raising_hook_runs'):
        ctx.count(c, 0)


def replay(ctx, w):
    import random
    spec = [tuple(x) for x in w['tree']]
    with T.Tree(spec, 'c15r-') as tr:
        if 'sequence' in w:
            class One:
                pass
            # re-run just this sequence
            global OPS
            saved = ctx.mine
            seq = tuple(w['sequence'])
            ctx.mine = lambda i: True
            old_product = itertools.product
            try:
                itertools.product = lambda *a, **kw: [seq] if kw.get('repeat') == len(seq) else []
                sequences(ctx, tr, len(seq))
            finally:
                itertools.product = old_product
                ctx.mine = saved
        else:
            rng = random.Random(0)
            root = tr.root
            pat, excl, flags = w['file_pattern'], w['exclude_pattern'], w['flags']

            class FixedRng(random.Random):
                def __init__(self):
                    super().__init__(0)
                    self.calls = 0

                def choice(self, seq):
                    self.calls += 1
                    if self.calls == 1:
                        return pat
                    if self.calls == 2:
                        return excl
                    return super().choice(seq)

            # run the whole per-tree battery with the recorded configuration
            orig_fresh = globals()['fresh']
            globals()['fresh'] = lambda r, p, e, f, quiet=False: orig_fresh(root, pat, excl, flags, quiet)
            try:
                check_tree(ctx, tr, FixedRng(), 0, True)
            finally:
                globals()['fresh'] = orig_fresh
            _ = rng
    return ctx.violations or None
