"""Observation layer: file-system audit monitor (directory listings per API call), kill / yield injectors."""
import os
import sys
import threading


class BudgetExceeded(BaseException):
    """Raised from the audit hook to abort a runaway directory walk (logical step bound, not wall clock)."""


class FSMonitor:
    """One sys.addaudithook per process; armed around a single API call.

    Records every os.scandir / os.listdir (and os.walk roots) as the *lexical* path by which the directory was
    reached. For directory file descriptors (dir_fd mode) the path of the preceding `open` event is used.
    """

    _installed = None

    def __init__(self):
        self.armed = False
        self.events = []
        self.budget = None
        self.last_open = None
        self.count = 0
        self.thread = None

    @classmethod
    def get(cls):
        if cls._installed is None:
            m = cls()
            sys.addaudithook(m._hook)
            cls._installed = m
        return cls._installed

    def _hook(self, event, args):
        if not self.armed or threading.get_ident() != self.thread:
            return
        if event == 'open':
            p = args[0]
            if isinstance(p, (str, bytes)):
                self.last_open = os.fsdecode(p)
        elif event in ('os.scandir', 'os.listdir'):
            p = args[0]
            if isinstance(p, int):
                p = self.last_open if self.last_open is not None else f'<fd {p}>'
            elif p is None:
                p = '.'
            else:
                p = os.fsdecode(p)
            self.events.append(p)
            self.count += 1
            if self.budget is not None and self.count > self.budget:
                self.armed = False
                raise BudgetExceeded(self.count)

    def arm(self, budget=None):
        self.events = []
        self.count = 0
        self.budget = budget
        self.last_open = None
        self.thread = threading.get_ident()
        self.armed = True

    def disarm(self):
        self.armed = False
        return list(self.events)


def rel_to(root, p):
    """Lexical path relative to root ('' for root itself); None if outside."""
    p = os.path.normpath(p) if p not in ('', '.') else '.'
    root_n = os.path.normpath(root)
    if os.path.isabs(p) or os.path.isabs(root_n):
        pa = p if os.path.isabs(p) else os.path.normpath(os.path.join(os.getcwd(), p))
        if pa == root_n:
            return ''
        if pa.startswith(root_n.rstrip('/') + '/'):
            return pa[len(root_n.rstrip('/')) + 1:]
        return None
    if p == root_n:
        return ''
    if p.startswith(root_n.rstrip('/') + '/'):
        return p[len(root_n.rstrip('/')) + 1:]
    return None


def lexical_rel(root, p):
    """Like rel_to but without normalising `..` away (keeps the path as it was walked)."""
    if p == root or p == root.rstrip('/'):
        return ''
    pre = root.rstrip('/') + '/'
    if p.startswith(pre):
        return p[len(pre):].rstrip('/')
    return None
