"""Runtime-monitoring machinery for facelessuser/wcmatch (see /verif/DESIGN.md)."""
