"""Independent left-to-right decoder of Python-style character escapes (oracle for C20, used by C10)."""
import unicodedata

SIMPLE = {'a': '\a', 'b': '\b', 'f': '\f', 'n': '\n', 'r': '\r', 't': '\t', 'v': '\v'}
HEX = set('0123456789abcdefABCDEF')
OCT = set('01234567')


class DecodeSyntax(Exception):
    """Incomplete \\x, \\u, \\U, \\N escape."""


class DecodeLookup(Exception):
    """\\N{NAME} names no character."""


class DecodeRange(Exception):
    """\\Uhhhhhhhh beyond U+10FFFF (the property is silent: SyntaxError or a lookup/value error both fit 'undecodable')."""


def decode(p, is_bytes=False):
    """Replace each escape by the character it denotes; everything else is left untouched.

    `\\\\` stays an escaped backslash (two characters), any other backslash pair stays as written.
    The text is handled as str (bytes callers decode/encode with latin-1).
    """

    out = []
    i = 0
    n = len(p)
    while i < n:
        c = p[i]
        if c != '\\':
            out.append(c)
            i += 1
            continue
        if i + 1 >= n:
            out.append(c)
            i += 1
            continue
        d = p[i + 1]
        if d == '\\':
            out.append('\\\\')
            i += 2
        elif d in SIMPLE:
            out.append(SIMPLE[d])
            i += 2
        elif d == 'x':
            h = p[i + 2:i + 4]
            if len(h) == 2 and set(h) <= HEX:
                out.append(chr(int(h, 16)))
                i += 4
            else:
                raise DecodeSyntax(i)
        elif d in OCT:
            j = i + 1
            while j < n and j < i + 4 and p[j] in OCT:
                j += 1
            v = int(p[i + 1:j], 8)
            out.append(chr(v & 0xff) if is_bytes else chr(v))
            i = j
        elif d == 'u' and not is_bytes:
            h = p[i + 2:i + 6]
            if len(h) == 4 and set(h) <= HEX:
                out.append(chr(int(h, 16)))
                i += 6
            else:
                raise DecodeSyntax(i)
        elif d == 'U' and not is_bytes:
            h = p[i + 2:i + 10]
            if len(h) == 8 and set(h) <= HEX:
                v = int(h, 16)
                if v > 0x10ffff:
                    raise DecodeRange(i)
                out.append(chr(v))
                i += 10
            else:
                raise DecodeSyntax(i)
        elif d == 'N' and not is_bytes:
            if p[i + 2:i + 3] == '{':
                j = p.find('}', i + 3)
                if j < 0:
                    raise DecodeSyntax(i)
                name = p[i + 3:j]
                try:
                    out.append(unicodedata.lookup(name))
                except KeyError:
                    raise DecodeLookup(name) from None
                i = j + 1
            else:
                raise DecodeSyntax(i)
        else:
            out.append(c + d)
            i += 2
    return ''.join(out)
