"""Composite pattern calls (lists, exclusions, SPLIT, BRACE) whose constituent single patterns are known by construction."""
from . import gen


class Composite:
    def __init__(self):
        self.patterns = []      # texts handed to the API
        self.exclude = None     # texts handed as exclude= (or None)
        self.flags = set()      # flag names
        self.inc = []           # (text, ast) of every expanded inclusion single, in expansion order
        self.exc = []           # (text, ast) of every expanded exclusion single
        self.inline_count = 0   # number of distinct expanded texts in `patterns` (inclusions and inline exclusions)
        self.path_mode = False

    def describe(self):
        return {'patterns': self.patterns, 'exclude': self.exclude, 'flags': sorted(self.flags),
                'inclusion_singles': [t for t, _ in self.inc], 'exclusion_singles': [t for t, _ in self.exc]}


def rand_single(rng, path_mode, ext=True, alpha='ab.c'):
    kinds = '?*+@!' if ext else ''
    for _ in range(20):
        if path_mode and rng.random() < 0.6:
            toks = gen.rand_path_tokens(rng, maxseg=rng.randint(1, 3), alpha=alpha, depth=1 if ext else 0)
            if not ext:
                toks = tuple(t for t in toks if t[0] != 'grp') or (('lit', 'a'),)
        else:
            toks = gen.rand_tokens(rng, maxtok=rng.randint(1, 4), depth=1 if ext else 0, alpha=alpha, kinds=kinds)
            toks = gen.make_fragment(toks, rng)
        if toks and not gen.ambiguous_adjacency(toks) and (gen.in_fragment_path(toks) if path_mode else gen.in_fragment(toks)):
            # a single must not begin with a character that reads as an inline negation marker by accident
            return toks
    return (('lit', 'a'),)


def L(x):
    return tuple(('lit', ch) for ch in x)


def S(*members):
    return ('set', False, tuple(('c', m) for m in members))


# singles whose text holds `|`, `(` or `)` where they do NOT split or close anything: inside brackets, inside extended groups,
# inside brackets inside groups, escaped. (text, AST, needs EXTMATCH)
RAW_SINGLES = [
    ('@(a[)]|b)', (('grp', '@', (L('a') + (S(')'),), L('b'))),), True),
    ('+([)(]|b)c', (('grp', '+', ((S(')', '('),), L('b'))),) + L('c'), True),
    ('a[|]b', L('a') + (S('|'),) + L('b'), False),
    ('[a|b]', (S('a', '|', 'b'),), False),
    ('@(a|[|]b)', (('grp', '@', (L('a'), (S('|'),) + L('b'))),), True),
    ('@(a|@(c[)]|b))b', (('grp', '@', (L('a'), (('grp', '@', (L('c') + (S(')'),), L('b'))),))),) + L('b'), True),
    ('*(a\\|b|c)', (('grp', '*', (L('a|b'), L('c'))),), True),
    ('a\\|b', L('a|b'), False),
    ('?(a|b)[(]', (('grp', '?', (L('a'), L('b'))), S('(')), True),
    ('[)]a|b'.split('|')[0], (S(')'),) + L('a'), False),
    ('!(a[|)]|b)', (('grp', '!', (L('a') + (S('|', ')'),), L('b'))),), True),
    # an escaped `]` does not close the bracket: the `|` behind it is still a member
    ('a[\\]|]b', L('a') + (S(']', '|'),) + L('b'), False),
    ('[\\]|a]b', (S(']', '|', 'a'),) + L('b'), False),
    ('@(a[\\])|]|b)', (('grp', '@', (L('a') + (S(']', ')', '|'),), L('b'))),), True),
    # an escaped `)` does not close the group: the `|` behind it is still an alternative of the group
    ('@(a\\)|b)', (('grp', '@', (L('a)'), L('b'))),), True),
    ('+(a\\)|b)c', (('grp', '+', (L('a)'), L('b'))),) + L('c'), True),
    ('?(\\(a\\)|b)', (('grp', '?', (L('(a)'), L('b'))),), True),
    ('*(a\\||b)', (('grp', '*', (L('a|'), L('b'))),), True),
]


def ser_single(t):
    return t[1] if t and t[0] == 'raw' else gen.ser(t)


def ast_single(t):
    return t[2] if t and t[0] == 'raw' else t


def build_text(rng, singles, how):
    """Join the serialised singles into one pattern text. how: 'plain' | 'split' | 'brace' | 'brace-affix'."""
    texts = [ser_single(t) for t in singles]
    asts = [ast_single(t) for t in singles]
    if how == 'plain' or len(singles) == 1:
        return texts[0], [(texts[0], asts[0])], set()
    if how == 'split':
        return '|'.join(texts), list(zip(texts, asts)), {'SPLIT'}
    if how == 'brace':
        return '{' + ','.join(texts) + '}', list(zip(texts, asts)), {'BRACE'}
    raise ValueError(how)


def brace_affix(rng, path_mode, ext):
    """prefix{alt1,alt2[,..]}suffix with optional numeric range alternative; returns text, singles."""
    pre = gen.rand_tokens(rng, maxtok=2, depth=0, alpha='ab.')
    post = gen.rand_tokens(rng, maxtok=2, depth=0, alpha='ab.') if rng.random() < 0.6 else ()
    alts = []
    if rng.random() < 0.3:
        lo = rng.randint(0, 3)
        hi = lo + rng.randint(1, 2)
        mid_text = f'{{{lo}..{hi}}}'
        alts = [tuple(('lit', c) for c in str(v)) for v in range(lo, hi + 1)]
    else:
        alts = [gen.rand_tokens(rng, maxtok=2, depth=1 if ext else 0, alpha='ab', kinds='?*+@' if ext else '', allow_neg=False)
                for _ in range(rng.randint(2, 3))]
        mid_text = '{' + ','.join(gen.ser(a) for a in alts) + '}'
    singles = []
    for a in alts:
        toks = tuple(pre) + tuple(a) + tuple(post)
        singles.append(toks)
    if any(gen.ambiguous_adjacency(t) or not t for t in singles):
        return None
    text = gen.ser(pre) + mid_text + gen.ser(post)
    return text, [(gen.ser(t), t) for t in singles]


def paren_single(rng):
    """A single whose text begins with an unescaped, literal `(`: behind the `-` marker (or behind `!` without EXTMATCH) it is an
    ordinary exclusion body, not an extended group."""
    mid = tuple(gen.rand_tokens(rng, maxtok=2, depth=0, alpha='ab', kinds=''))
    tail = tuple(gen.rand_tokens(rng, maxtok=2, depth=0, alpha='ab.', kinds='')) if rng.random() < 0.6 else ()
    toks = (('lit', '('),) + mid + (('lit', ')'),) + tail
    if gen.ambiguous_adjacency(toks) or not gen.in_fragment(toks):
        return None
    return '(' + gen.ser(mid) + ')' + gen.ser(tail), toks


def closer_single(rng):
    """A single whose text begins with an unescaped, literal `)`: behind either marker it is an ordinary exclusion body (only an
    opening `(` right behind `!` makes an extended group of it)."""
    tail = tuple(gen.rand_tokens(rng, maxtok=2, depth=0, alpha='ab.', kinds=''))
    toks = (('lit', ')'),) + tail
    if gen.ambiguous_adjacency(toks) or not gen.in_fragment(toks):
        return None
    return ')' + gen.ser(tail), toks


def rand_composite(rng, path_mode, max_inc=4, max_exc=3):
    c = Composite()
    c.path_mode = path_mode
    ext = rng.random() < 0.8
    if ext:
        c.flags.add('EXTMATCH')
    n_exc = rng.choice((0, 0, 1, 1, 2, max_exc))
    n_inc = rng.randint(0 if n_exc else 1, max_inc) if rng.random() < 0.9 else 0
    if not n_inc and not n_exc:
        n_inc = 1
    inline_neg = n_exc and (rng.random() < 0.5 or not n_inc)   # exclusions alone only in the inline (NEGATE) spelling
    minus = inline_neg and rng.random() < 0.4
    inline_texts = []

    def make_group(n):
        """n singles -> list of (api text, [(single text, ast)], flags needed)"""
        out = []
        remaining = n
        while remaining > 0:
            k = min(remaining, rng.choice((1, 1, 2, 3)))
            r = rng.random()
            if k == 1 and r < 0.25:
                ba = brace_affix(rng, path_mode, ext)
                if ba:
                    out.append((ba[0], ba[1], {'BRACE'}))
                    remaining -= 1
                    continue
            singles = [rand_single(rng, path_mode, ext) for _ in range(k)]
            if rng.random() < 0.12:
                raws = [r for r in RAW_SINGLES if ext or not r[2]]
                text_, ast_, _e = rng.choice(raws)
                singles[rng.randrange(k)] = ('raw', text_, ast_)
            how = 'plain' if k == 1 else rng.choice(('split', 'brace'))
            if path_mode and k >= 2 and how == 'split' and rng.random() < 0.2:
                # `[` that is no bracket expression because a separator comes before its `]`: the `|` in between splits
                x, a, b, y = (rng.choice('abc') for _ in range(4))
                neg = rng.choice(('', '!'))
                first = ('raw', f'{x}[{neg}{a}', L(x + '[' + neg + a))
                second = ('raw', f'{b}/]{y}', L(b) + (('sep', '/'),) + L(']' + y))
                singles[0:2] = [first, second]
            if k >= 2 and how == 'split' and rng.random() < 0.12 and not any('[' in ser_single(t) or '(' in ser_single(t) for t in singles[:-2]):
                # a group that is never closed is plain text: the `|` behind it splits, also when a bracket follows
                t_ = rng.choice('@*+?')
                x, a, b = (rng.choice('abc') for _ in range(3))
                neg = rng.choice(('', '!'))
                first = ('raw', f'{t_}({x}', L(f'{t_}({x}')) if t_ in '@+' else ('raw', f'{x}{t_}({x}', L(x) + ((('star',),) if t_ == '*' else (('q',),)) + L('(' + x))
                second = ('raw', f'[{neg}{a}]{b}', (('set', bool(neg), (('c', a),)),) + L(b))
                singles[-2:] = [first, second]
            text, pairs, need = build_text(rng, singles, how)
            out.append((text, pairs, need))
            remaining -= k
        return out

    for text, pairs, need in make_group(n_inc):
        c.patterns.append(text)
        c.inc.extend(pairs)
        c.flags |= need
        inline_texts.extend(t for t, _ in pairs)
    exc_groups = make_group(n_exc) if n_exc else []
    if inline_neg:
        c.flags.add('NEGATE')
        mark = '!'
        if minus:
            c.flags.add('MINUSNEGATE')
            mark = '-'
        for text, pairs, need in exc_groups:
            if len(pairs) == 1 and not need and (minus or not ext) and rng.random() < 0.25:
                ps = paren_single(rng)
                if ps:
                    text, pairs = ps[0], [ps]
            elif len(pairs) == 1 and not need and rng.random() < 0.12:
                ps = closer_single(rng)
                if ps:
                    text, pairs = ps[0], [ps]
            c.flags |= need
            if 'SPLIT' in need and len(pairs) > 1:
                # the marker must be on every piece
                c.patterns.append('|'.join(mark + t for t, _ in pairs))
            else:
                c.patterns.append(mark + text)
            c.exc.extend(pairs)
            inline_texts.extend(mark + t for t, _ in pairs)
        rng.shuffle(c.patterns)
    elif n_exc:
        c.exclude = []
        # NEGATE may be on while the exclusions come through exclude=: a `!` / `-` opening an exclude= pattern is then plain text
        negate_on = rng.random() < 0.3
        if negate_on:
            c.flags.add('NEGATE')
            if rng.random() < 0.3:
                c.flags.add('MINUSNEGATE')
        for text, pairs, need in exc_groups:
            if negate_on and len(pairs) == 1 and not need and rng.random() < 0.5:
                body = tuple(gen.rand_tokens(rng, maxtok=2, depth=0, alpha='ab', kinds=''))
                toks = (('lit', '-' if 'MINUSNEGATE' in c.flags else '!'),) + body
                if not gen.ambiguous_adjacency(toks) and gen.in_fragment(toks) and not (body and body[0] == ('lit', '(')):
                    text = toks[0][1] + gen.ser(body)
                    pairs = [(text, toks)]
            c.flags |= need
            c.exclude.append(text)
            c.exc.extend(pairs)
    # BRACE / SPLIT change the reading of every text: make sure texts built without them stay single
    c.inline_count = len(set(inline_texts))
    if rng.random() < 0.3:
        c.flags.add('NEGATEALL')
    if rng.random() < 0.25:
        c.flags.add('DOTMATCH')
    if path_mode and rng.random() < 0.3:
        c.flags.add('GLOBSTAR')
    if path_mode and rng.random() < 0.2:
        c.flags.add('NODIR')
    if path_mode and rng.random() < 0.2:
        c.flags.add('MATCHBASE')     # decided per expanded pattern: a slash-less single keeps its implicit prefix next to slashed ones
    return c
