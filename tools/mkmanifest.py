#!/venv/bin/python
"""Regenerate /verif/MANIFEST.json from the SPEC of every check module that exists; validates it."""
import importlib
import json
import os
import sys

HERE = os.path.dirname(os.path.dirname(os.path.abspath(__file__)))
sys.path.insert(0, HERE)
os.environ.setdefault('PYTHONDONTWRITEBYTECODE', '1')

from wcverif import core  # noqa: E402

BASE = json.load(open('/root/.vp/BASELINE.json')) if os.path.exists('/root/.vp/BASELINE.json') else {}

LEVEL_TEXT = {}
checks = []
missing = []
for prop in core.PROPS:
    try:
        mod = importlib.import_module(f'wcverif.checks.{prop.lower()}')
    except ModuleNotFoundError:
        missing.append(prop)
        continue
    spec = mod.SPEC
    checks.append({
        'property_id': prop,
        'quick_cmd': f'./check {prop} --tier quick',
        'thorough_cmd': f'./check {prop} --tier thorough',
        'evidence_file': f'/verif/evidence/{prop}.json',
        'replay_cmd_template': f'./check {prop} --replay {{path}}',
        'engine': 'wcverif',
        'level_claimed': {
            'category': spec.get('level', 'exploration'),
            'text': spec.get('level_text') or (
                'Runtime monitoring: the real wcmatch functions are executed from /repo\'s working tree on generated '
                'workloads and every observed result is judged by an independent deterministic oracle; the verdict is '
                '"held on the executions observed" (counts in the evidence file), never "verified".'),
            'design_ref': f'DESIGN.md section 5, {prop}',
        },
        'level_note': '; '.join(spec.get('assumptions', [])) or 'oracle and generators are trusted',
        'technique': spec.get('technique', 'runtime monitoring: recorded API executions judged by an executable '
                                           'reference oracle'),
    })

manifest = {
    'version': 1,
    'setup_cmd': 'cd /verif && /venv/bin/python -m compileall -q wcverif >/dev/null 2>&1; '
                 'PYTHONDONTWRITEBYTECODE=1 PYTHONPATH=/verif:/repo /venv/bin/python -c "import wcverif.env as e; e.import_wcmatch()"',
    'hooks': {
        'guard': 'WCMATCH_VERIF',
        'enable': 'no source hooks exist: every monitor attaches from the harness (sys.addaudithook, sys.monitoring, '
                  'wrappers on public entry points); ./check exports WCMATCH_VERIF=1 for uniformity only',
        'baseline_off_cmd': 'cd /repo && env -u WCMATCH_VERIF /venv/bin/python -m pytest -ra -q -p no:cacheprovider '
                            '--timeout=900 --continue-on-collection-errors',
        'source_commits': [],
        'add_only': True,
    },
    'engines': [{
        'name': 'wcverif',
        'path': '/verif/wcverif',
        'serves_properties': [c['property_id'] for c in checks],
        'kind_free_text': 'pure-Python runtime-monitoring harness: sharded workloads over the real code, recording '
                          'proxies, audit hooks, reference model / reference walker / Bash oracles, defect-model '
                          'attribution of known findings',
    }],
    'checks': checks,
    'notes': 'See DESIGN.md. Exit codes: 0 held on what was observed, 1 violation (VIOLATION line + replay file), '
             '2 inconclusive (deciding monitor not reached). Known findings are listed in known_findings.json.',
    'not_applicable': [{'property_id': p, 'reason': 'check not built yet in this session (planned, see DESIGN.md section 10)'}
                       for p in missing],
}
path = os.path.join(HERE, 'MANIFEST.json')
with open(path, 'w') as f:
    json.dump(manifest, f, indent=1)
    f.write('\n')
print(f'wrote {path}: {len(checks)} checks, {len(missing)} not yet claimed')
