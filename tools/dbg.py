#!/venv/bin/python
"""Debug helper: run a check's shards and dump every violation signature with its first witness."""
import json, os, subprocess, sys, tempfile
sys.path.insert(0, os.path.dirname(os.path.dirname(os.path.abspath(__file__))))
prop = sys.argv[1].upper(); tier = sys.argv[2] if len(sys.argv) > 2 else 'quick'; seed = sys.argv[3] if len(sys.argv) > 3 else '0'
pat = sys.argv[4] if len(sys.argv) > 4 else ''
d = tempfile.mkdtemp(dir='/dev/shm')
env = dict(os.environ, PYTHONPATH='/verif:/repo', PYTHONHASHSEED='0', PYTHONDONTWRITEBYTECODE='1')
ps = [subprocess.Popen(['/venv/bin/python', '-m', 'wcverif.core', '--worker', prop, tier, seed, str(s), '16', f'{d}/{s}.json', os.environ.get('BUDGET', '30')], cwd='/verif', env=env) for s in range(16)]
[p.wait() for p in ps]
seen = {}
known = {}
for s in range(16):
    try: r = json.load(open(f'{d}/{s}.json'))
    except Exception as e: print('shard', s, 'no result'); continue
    if r.get('error'): print('ERR', r['error'][-800:])
    for sig, w in r['violations'].items(): seen.setdefault(sig, w)
    for k, (n, w) in r['known'].items(): known[k] = known.get(k, 0) + n
for sig, w in seen.items():
    if pat in sig:
        if os.environ.get('SHORT'):
            print({k: w.get(k) for k in ('pattern', 'path', 'name', 'flags', 'expected', 'observed') if k in w})
        else:
            print('SIG', sig, '\n    ', json.dumps(w)[:700])
print('known:', known, 'distinct sigs:', len(seen))
import shutil; shutil.rmtree(d)
