#!/venv/bin/python
"""Apply one textual mutant to a scratch copy of /repo and run the repository suite and some checks against it.

usage: tools/trymutant.py <file under wcmatch/> <line> <old substring> <new substring> <CHECK,CHECK,...> [--no-suite]

Neither /repo nor /verif/evidence is touched (WCVERIF_REPO / WCVERIF_OUT point at scratch directories).
"""
import os
import shutil
import subprocess
import sys
import tempfile

VERIF = os.path.dirname(os.path.dirname(os.path.abspath(__file__)))


def main():
    f, line, old, new, checks = sys.argv[1:6]
    line = int(line)
    work = tempfile.mkdtemp(prefix='trymutant-', dir='/tmp')
    try:
        mrepo = os.path.join(work, 'repo')
        shutil.copytree('/repo', mrepo, ignore=shutil.ignore_patterns('.git', '__pycache__', '*.pyc', 'site', 'docs'))
        p = os.path.join(mrepo, 'wcmatch', f)
        lines = open(p).read().split('\n')
        if old not in lines[line - 1]:
            print(f'line {line} does not contain {old!r}: {lines[line - 1]!r}')
            return 2
        lines[line - 1] = lines[line - 1].replace(old, new, 1)
        open(p, 'w').write('\n'.join(lines))
        print('mutant:', lines[line - 1].strip())
        if '--no-suite' not in sys.argv:
            r = subprocess.run('/venv/bin/python -m pytest -q -p no:cacheprovider 2>&1 | tail -1', shell=True, cwd=mrepo, capture_output=True, text=True,
                               env=dict(os.environ, PYTHONDONTWRITEBYTECODE='1', PYTHONPATH=mrepo))
            print('suite:', r.stdout.strip())
        env = dict(os.environ, WCVERIF_REPO=mrepo, WCVERIF_OUT=os.path.join(work, 'out'))
        for c in checks.split(','):
            r = subprocess.run(['./check', c, '--tier', 'quick'], cwd=VERIF, env=env, capture_output=True, text=True)
            sigs = [x.strip() for x in r.stdout.splitlines() if x.strip().startswith('signature:')]
            print(f'{c}: exit={r.returncode} {sigs[:2]}')
    finally:
        shutil.rmtree(work, ignore_errors=True)
    return 0


if __name__ == '__main__':
    sys.exit(main())
