#!/bin/sh
# Run the repository's unedited suite (guard off) and print the summary line; expected: "2 failed, 1194 passed".
cd "${1:-/repo}" && env -u WCMATCH_VERIF PYTHONDONTWRITEBYTECODE=1 /venv/bin/python -m pytest -q -p no:cacheprovider 2>&1 | tail -4
