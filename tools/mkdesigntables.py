#!/venv/bin/python
"""Regenerate the generated tables of DESIGN.md (between `<!-- GEN:<name> -->` and `<!-- /GEN:<name> -->` markers) from
known_findings.json and seeded/*/meta.json.  usage: tools/mkdesigntables.py [--check]"""
import glob
import json
import os
import re
import subprocess
import sys

VERIF = os.path.dirname(os.path.dirname(os.path.abspath(__file__)))


def esc(s):
    return str(s).replace('|', '\\|').replace('\n', ' ')


def open_findings():
    k = json.load(open(os.path.join(VERIF, 'known_findings.json')))
    rows = ['| id | properties | mechanism | minimal witness |', '|---|---|---|---|']
    for f in k['findings']:
        if f['status'] == 'open':
            rows.append(f"| {f['id']} | {' '.join(f['properties'])} | {esc(f['mechanism'])} | {esc(f['minimal_witness'])} |")
    return '\n'.join(rows)


def fixed_findings():
    k = json.load(open(os.path.join(VERIF, 'known_findings.json')))
    order = subprocess.run('git -C /repo log --format=%h --abbrev=7', shell=True, capture_output=True, text=True).stdout.split()
    pos = {h: i for i, h in enumerate(reversed(order))}
    fs = [f for f in k['findings'] if f['status'] == 'fixed']
    fs.sort(key=lambda f: pos.get(f.get('commit', '')[:7], 10 ** 6))
    rows = ['| commit | id | found by | what failed |', '|---|---|---|---|']
    for f in fs:
        m = re.match(r'fixed: property=(C\d+) (\w+) (.*)', f.get('record', ''), re.S)
        prop, what = (m.group(1), m.group(3)) if m else (f['properties'][0], f.get('what_fails', ''))
        rows.append(f"| {f.get('commit', '?')} | {f['id']} | {prop} | {esc(what)} |")
    return '\n'.join(rows)


def seeded():
    rows = ['| seeded change | property | needs to manifest | caught at first | now caught by (quick tier) |', '|---|---|---|---|---|']
    metas = []
    for mp in sorted(glob.glob(os.path.join(VERIF, 'seeded', '*', 'meta.json'))):
        m = json.load(open(mp))
        metas.append(m)
    metas.sort(key=lambda m: (m['name'].startswith('r'), m['name'][:2] if m['name'].startswith('r') else '', m['property'], m['name']))
    for m in metas:
        first_c = m.get('first_caught_by', [])
        rows.append(f"| {m['name']} | {m['property']} | {esc(m.get('needs_to_manifest', ''))} | {' '.join(first_c) or '-'} | "
                    f"{' '.join(m.get('caught_by', [])) or ('(out of scope, see meta.json)' if m.get('out_of_scope') else '**missed**')} |")
    return '\n'.join(rows)


GEN = {'open-findings': open_findings, 'fixed-findings': fixed_findings, 'seeded': seeded}


def main():
    p = os.path.join(VERIF, 'DESIGN.md')
    s = open(p).read()
    new = s
    for name, fn in GEN.items():
        pat = re.compile(r'(<!-- GEN:%s -->\n).*?(\n<!-- /GEN:%s -->)' % (name, name), re.S)
        if not pat.search(new):
            print('marker missing:', name)
            continue
        body = fn()
        new = pat.sub(lambda m: m.group(1) + body + m.group(2), new)
    if '--check' in sys.argv:
        print('up to date' if new == s else 'OUT OF DATE')
        return 0 if new == s else 1
    if new != s:
        open(p, 'w').write(new)
        print('DESIGN.md tables regenerated')
    return 0


if __name__ == '__main__':
    sys.exit(main())
