#!/bin/sh
# Validate MANIFEST.json and every evidence file against the task schemas (uses the tooling venv's jsonschema).
cd "$(dirname "$0")/.." || exit 1
python3-vt - <<'PY'
import json, glob, jsonschema, sys
ok = True
m = json.load(open('MANIFEST.json'))
jsonschema.validate(m, json.load(open('/root/.vp/MANIFEST.schema.json')))
print('MANIFEST ok:', len(m['checks']), 'checks')
es = json.load(open('/root/.vp/EVIDENCE.schema.json'))
for f in sorted(glob.glob('evidence/*.json')):
    try:
        jsonschema.validate(json.load(open(f)), es)
    except Exception as e:
        ok = False
        print('INVALID', f, str(e)[:300])
print('evidence ok' if ok else 'evidence INVALID')
sys.exit(0 if ok else 1)
PY
