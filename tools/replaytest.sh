#!/bin/sh
# Usage: tools/replaytest.sh "<PROP> <seeded-dir-name>" ...
# For each pair: apply the seeded change to /repo, run the quick check, replay the first replay file with the change (must exit 1)
# and after reverting (must exit 0). Evidence of the unchanged tree is preserved (WCVERIF_OUT points to a scratch directory).
OUT=$(mktemp -d /tmp/replaytest.XXXXXX); export WCVERIF_OUT="$OUT"
trap 'git -C /repo checkout -- . ; rm -rf "$OUT"' EXIT INT TERM
cd /verif || exit 2
rc=0
for pair in "$@"; do
  set -- $pair
  git -C /repo diff --quiet || { echo "/repo has uncommitted changes"; exit 2; }
  git -C /repo apply /verif/seeded/$2/patch.diff || exit 2
  ./check $1 --tier quick > "$OUT/run.log" 2>&1
  rp=$(grep -o 'replay=.*' "$OUT/run.log" | head -1 | cut -d= -f2)
  if [ -z "$rp" ]; then echo "$1 $2: not reported, nothing to replay"; git -C /repo checkout -- .; rc=1; continue; fi
  ./check $1 --replay "$rp" > "$OUT/r1.log" 2>&1; a=$?
  git -C /repo checkout -- .
  ./check $1 --replay "$rp" > "$OUT/r2.log" 2>&1; b=$?
  echo "$1 $2: replay with the change exit=$a (want 1); without exit=$b (want 0)"
  [ "$a" = 1 ] && [ "$b" = 0 ] || rc=1
done
exit $rc
