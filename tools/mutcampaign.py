#!/venv/bin/python
"""Small automatic mutation campaign: which single-token changes of wcmatch survive both the repository's suite and the checks?

usage: tools/mutcampaign.py [--files glob.py,_wcparse.py] [--max N] [--seed S] [--out FILE]

Works on scratch copies only (a copy of /repo under /tmp and a copy of /verif under /tmp); /repo and /verif are never touched.
Survivors are either equivalent mutants or blind spots: they are listed for review, nothing is decided automatically.
"""
import ast
import json
import os
import random
import shutil
import subprocess
import sys
import tempfile
import time

REPO = '/repo'
VERIF = os.path.dirname(os.path.dirname(os.path.abspath(__file__)))
BASELINE = '2 failed, 1194 passed'
ONLY = [w for w in os.environ.get('MUT_ONLY', '').split(',') if w]   # keep only mutants whose description contains one of these
OPS = set(os.environ.get('MUT_OPS', '').split(','))   # extra operators: assign, ifconst
CHECKS_FOR = {
    '_wcparse.py': ['C01', 'C02', 'C03', 'C10', 'C08', 'C07', 'C09', 'C17', 'C20', 'C18', 'C05', 'C11', 'C16', 'C19', 'C14'],
    'glob.py': ['C05', 'C04', 'C12', 'C13', 'C06', 'C16', 'C03', 'C11', 'C18', 'C10', 'C09', 'C19', 'C20'],
    '_wcmatch.py': ['C04', 'C06', 'C16', 'C07', 'C10', 'C19', 'C18', 'C02', 'C12'],
    'wcmatch.py': ['C14', 'C15', 'C11', 'C03', 'C18', 'C20', 'C10', 'C06'],
    'pathlib.py': ['C16', 'C13', 'C11', 'C03', 'C10', 'C19'],
    'util.py': ['C20', 'C14', 'C10', 'C18', 'C17', 'C01', 'C19'],
    'fnmatch.py': ['C01', 'C11', 'C07', 'C17', 'C09', 'C19', 'C10'],
    'posix.py': ['C01', 'C18'],
}
CMP = {ast.Lt: '<=', ast.LtE: '<', ast.Gt: '>=', ast.GtE: '>', ast.Eq: '!=', ast.NotEq: '==', ast.Is: 'is not', ast.IsNot: 'is',
       ast.In: 'not in', ast.NotIn: 'in'}
CMP_TXT = {ast.Lt: '<', ast.LtE: '<=', ast.Gt: '>', ast.GtE: '>=', ast.Eq: '==', ast.NotEq: '!=', ast.Is: 'is', ast.IsNot: 'is not',
           ast.In: 'in', ast.NotIn: 'not in'}


def mutants_of(path):
    src = open(path).read()
    lines = src.split('\n')
    tree = ast.parse(src)
    out = []

    def seg(node):
        return ast.get_source_segment(src, node)

    def replace_node(node, new, what):
        if node.lineno != node.end_lineno:
            return
        ln = node.lineno - 1
        line = lines[ln]
        # col offsets are utf-8 byte offsets; sources are ascii
        out.append((ln, line[:node.col_offset] + new + line[node.end_col_offset:], what))

    for node in ast.walk(tree):
        if isinstance(node, ast.Compare) and len(node.ops) == 1 and node.lineno == node.end_lineno:
            op = type(node.ops[0])
            if op in CMP:
                left, right = seg(node.left), seg(node.comparators[0])
                if left and right:
                    replace_node(node, f'{left} {CMP[op]} {right}', f'compare {CMP_TXT[op]} -> {CMP[op]}')
        elif isinstance(node, ast.BoolOp) and node.lineno == node.end_lineno and len(node.values) == 2:
            a, b = seg(node.values[0]), seg(node.values[1])
            if a and b:
                new = 'or' if isinstance(node.op, ast.And) else 'and'
                replace_node(node, f'{a} {new} {b}', f'boolop -> {new}')
                replace_node(node, a, 'boolop: keep left operand only')
                replace_node(node, b, 'boolop: keep right operand only')
        elif isinstance(node, ast.UnaryOp) and isinstance(node.op, ast.Not):
            inner = seg(node.operand)
            if inner:
                replace_node(node, f'({inner})', 'drop not')
        elif isinstance(node, ast.Constant) and isinstance(node.value, bool):
            replace_node(node, str(not node.value), f'{node.value} -> {not node.value}')
        elif isinstance(node, ast.Constant) and isinstance(node.value, int) and not isinstance(node.value, bool) and node.value in (0, 1, 2, -1):
            replace_node(node, str(node.value + 1), f'{node.value} -> {node.value + 1}')
        elif isinstance(node, ast.Expr) and isinstance(node.value, ast.Call) and node.lineno == node.end_lineno:
            txt = seg(node)
            if txt and txt.startswith('self.') and '(' in txt:
                ln = node.lineno - 1
                indent = lines[ln][:len(lines[ln]) - len(lines[ln].lstrip())]
                out.append((ln, indent + 'pass', f'drop call {txt[:40]}'))
        elif isinstance(node, ast.If) and node.test.lineno == node.test.end_lineno:
            t = seg(node.test)
            if t and len(t) < 80:
                replace_node(node.test, f'not ({t})', 'negate if-condition')
                if 'ifconst' in OPS:
                    replace_node(node.test, f'False and ({t})', 'if-condition -> False')
                    replace_node(node.test, f'True or ({t})', 'if-condition -> True')
        elif isinstance(node, (ast.Assign, ast.AugAssign)) and node.lineno == node.end_lineno and 'assign' in OPS:
            txt = seg(node)
            tgt = node.targets[0] if isinstance(node, ast.Assign) else node.target
            if txt and isinstance(tgt, (ast.Attribute, ast.Name, ast.Subscript)):
                ln = node.lineno - 1
                indent = lines[ln][:len(lines[ln]) - len(lines[ln].lstrip())]
                out.append((ln, indent + 'pass', f'drop assignment {txt[:50]}'))
        elif isinstance(node, (ast.Break, ast.Continue)):
            ln = node.lineno - 1
            indent = lines[ln][:len(lines[ln]) - len(lines[ln].lstrip())]
            out.append((ln, indent + 'pass', f'drop {type(node).__name__.lower()}'))
    # de-duplicate
    seen = set()
    res = []
    for ln, new, what in out:
        if new == lines[ln] or (ln, new) in seen or (ONLY and not any(w in what for w in ONLY)):
            continue
        seen.add((ln, new))
        res.append((ln, new, what))
    return lines, res


def sh(cmd, cwd=None, env=None, timeout=1800):
    try:
        r = subprocess.run(cmd, shell=True, cwd=cwd, env=env, capture_output=True, timeout=timeout)
        return r.returncode, (r.stdout + r.stderr).decode('utf-8', 'replace')
    except subprocess.TimeoutExpired:
        return 124, 'timeout'


def main():
    args = sys.argv[1:]
    files = ['_wcparse.py', 'glob.py', '_wcmatch.py', 'wcmatch.py', 'pathlib.py', 'util.py', 'fnmatch.py']
    maxn, seed, outp = 60, 0, os.path.join('/tmp', 'mutcampaign.json')
    i = 0
    while i < len(args):
        if args[i] == '--files':
            files = args[i + 1].split(',')
        elif args[i] == '--max':
            maxn = int(args[i + 1])
        elif args[i] == '--seed':
            seed = int(args[i + 1])
        elif args[i] == '--out':
            outp = args[i + 1]
        i += 2
    rng = random.Random(seed)
    work = tempfile.mkdtemp(prefix='mutcamp-', dir='/tmp')
    mrepo = os.path.join(work, 'repo')
    mverif = os.path.join(work, 'verif')
    shutil.copytree(REPO, mrepo, ignore=shutil.ignore_patterns('.git', '__pycache__', '*.pyc', 'site'))
    shutil.copytree(VERIF, mverif, ignore=shutil.ignore_patterns('.git', '__pycache__', '*.pyc', 'replays', 'seeded', 'mutants'))
    allm = []
    for f in files:
        p = os.path.join(mrepo, 'wcmatch', f)
        lines, ms = mutants_of(p)
        for m in ms:
            allm.append((f, lines, m))
    rng.shuffle(allm)
    allm = allm[:maxn]
    results = []
    env_t = dict(os.environ, PYTHONDONTWRITEBYTECODE='1')
    env_c = dict(os.environ, WCVERIF_REPO=mrepo, VERIF_SHARDS=os.environ.get('MUT_SHARDS', '8'))
    try:
        for n, (f, lines, (ln, new, what)) in enumerate(allm):
            p = os.path.join(mrepo, 'wcmatch', f)
            orig = open(os.path.join(REPO, 'wcmatch', f)).read()
            ml = list(lines)
            ml[ln] = new
            open(p, 'w').write('\n'.join(ml))
            rec = {'file': f, 'line': ln + 1, 'what': what, 'old': lines[ln].strip(), 'new': new.strip()}
            rc, out = sh('/venv/bin/python -c "import wcmatch.glob, wcmatch.fnmatch, wcmatch.wcmatch, wcmatch.pathlib"', cwd=mrepo, env=env_t, timeout=60)
            if rc != 0:
                rec['status'] = 'does not import'
            else:
                rc, out = sh('/venv/bin/python -m pytest -q -p no:cacheprovider --timeout=120 2>&1 | tail -1', cwd=mrepo, env=env_t, timeout=900)
                rec['suite'] = out.strip()[-80:]
                if BASELINE not in out:
                    rec['status'] = 'killed by the repository suite'
                else:
                    rec['status'] = 'SURVIVED'
                    for c in CHECKS_FOR.get(f, []):
                        t0 = time.time()
                        rc, out = sh(f'./check {c} --tier quick', cwd=mverif, env=env_c, timeout=1200)
                        if rc == 1:
                            sig = [x.strip() for x in out.splitlines() if x.strip().startswith('signature:')][:1]
                            rec['status'] = f'caught by {c}'
                            rec['signature'] = sig[0][:160] if sig else ''
                            break
                        if rc not in (0, 1):
                            rec.setdefault('inconclusive', []).append(c)
                        rec.setdefault('checks_passed', []).append(c)
            results.append(rec)
            print(f"[{n + 1}/{len(allm)}] {f}:{ln + 1} {what}: {rec['status']}", flush=True)
            open(p, 'w').write(orig)
            with open(outp, 'w') as fo:
                json.dump(results, fo, indent=1)
    finally:
        shutil.rmtree(work, ignore_errors=True)
    surv = [r for r in results if r['status'] == 'SURVIVED']
    print(f'{len(results)} mutants: {sum(1 for r in results if r["status"].startswith("killed"))} killed by the suite, '
          f'{sum(1 for r in results if r["status"].startswith("caught"))} caught by the checks only, {len(surv)} survived, '
          f'{sum(1 for r in results if r["status"] == "does not import")} do not import')
    for r in surv:
        print('SURVIVOR', r['file'], r['line'], r['what'], '|', r['old'], '=>', r['new'])


if __name__ == '__main__':
    main()
