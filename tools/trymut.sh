#!/bin/sh
# Usage: tools/trymut.sh <patch.diff> <PROP> [<PROP>...]   (env TIER=quick|thorough, SKIPTESTS=1)
# Applies a seeded change to /repo, runs the repository's suite (must stay at baseline) and the named checks, reverts.
patch="$1"; shift
cd /repo || exit 2
if ! git diff --quiet; then echo "repo has uncommitted changes"; exit 2; fi
git apply "$patch" || { echo "patch does not apply"; exit 2; }
EVBAK=$(mktemp -d /tmp/trymut-ev.XXXXXX); cp -a /verif/evidence "$EVBAK/"
trap 'git -C /repo checkout -- . ; rm -rf /verif/evidence; cp -a "$EVBAK/evidence" /verif/evidence; rm -rf "$EVBAK"' EXIT INT TERM
if [ -z "$SKIPTESTS" ]; then /verif/tools/repotest.sh | tail -1; fi
cd /verif
for p in "$@"; do
  ./check "$p" --tier "${TIER:-quick}" > /tmp/trymut.$$.log 2>&1; rc=$?
  echo "== $p exit=$rc $(grep -c '^VIOLATION' /tmp/trymut.$$.log) violation lines; $(grep -E '^  signature' /tmp/trymut.$$.log | head -2 | tr '\n' ';')"
  rm -f /tmp/trymut.$$.log
done
