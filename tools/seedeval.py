#!/venv/bin/python
"""Confirm a seeded change and run the checks against it.

usage: tools/seedeval.py <name> <patch> <demo.py> <PROP> [--checks C01,C02,...] [--tier quick]

1. confirm, in a scratch worktree of /repo HEAD (outside /repo and /verif): the demo passes without the patch, fails with it,
   and the repository's suite gives the baseline summary with it;
2. apply the patch to a scratch copy of /repo's working tree and run the named checks against it (WCVERIF_REPO / WCVERIF_OUT):
   /repo itself and /verif/evidence are not touched;
3. write /verif/seeded/<name>/{patch.diff, demo.py, meta.json}.
"""
import json
import os
import shutil
import subprocess
import sys
import tempfile
import time

VERIF = os.path.dirname(os.path.dirname(os.path.abspath(__file__)))
REPO = '/repo'
BASELINE = '2 failed, 1194 passed'


def sh(cmd, cwd=None, env=None, timeout=3600):
    r = subprocess.run(cmd, shell=True, cwd=cwd, env=env, capture_output=True, timeout=timeout)
    return r.returncode, (r.stdout + r.stderr).decode('utf-8', 'replace')


def main():
    args = sys.argv[1:]
    name, patch, demo, prop = args[:4]
    checks = [prop]
    tier = 'quick'
    needs = ''
    i = 4
    while i < len(args):
        if args[i] == '--checks':
            checks = args[i + 1].split(',')
            i += 2
        elif args[i] == '--tier':
            tier = args[i + 1]
            i += 2
        elif args[i] == '--needs':
            needs = args[i + 1]
            i += 2
        else:
            i += 1
    meta = {'name': name, 'property': prop, 'needs_to_manifest': needs, 'when': time.strftime('%Y-%m-%d %H:%M:%S')}
    wt = tempfile.mkdtemp(prefix='seedeval-', dir='/tmp')
    os.rmdir(wt)
    rc, out = sh(f'git -C {REPO} worktree add -q --detach {wt} HEAD')
    if rc:
        print(out)
        return 2
    try:
        env = dict(os.environ, PYTHONPATH=wt, PYTHONDONTWRITEBYTECODE='1')
        rc0, out0 = sh(f'/venv/bin/python {os.path.abspath(demo)}', cwd=wt, env=env, timeout=600)
        meta['demo_without_change'] = {'exit': rc0, 'tail': out0[-300:]}
        rc, out = sh(f'git apply {os.path.abspath(patch)}', cwd=wt)
        if rc:
            meta['error'] = 'patch does not apply to /repo HEAD: ' + out[-300:]
            print(meta['error'])
            return finish(name, patch, demo, meta, ok=False)
        rc1, out1 = sh(f'/venv/bin/python {os.path.abspath(demo)}', cwd=wt, env=env, timeout=600)
        meta['demo_with_change'] = {'exit': rc1, 'tail': out1[-300:]}
        rct, outt = sh('/venv/bin/python -m pytest -q -p no:cacheprovider 2>&1 | tail -1', cwd=wt, env=dict(os.environ, PYTHONDONTWRITEBYTECODE='1'))
        meta['suite_with_change'] = outt.strip()
        confirmed = rc0 == 0 and rc1 != 0 and BASELINE in outt
        meta['confirmed'] = confirmed
        print(f'demo without change: exit {rc0}; with change: exit {rc1}; suite: {outt.strip()}; confirmed={confirmed}')
    finally:
        sh(f'git -C {REPO} worktree remove --force {wt}')
        shutil.rmtree(wt, ignore_errors=True)
    if not meta.get('confirmed'):
        return finish(name, patch, demo, meta, ok=False)
    # ---- run the checks against the change (on a scratch copy of /repo's working tree; /repo and evidence/ stay untouched) ------
    work = tempfile.mkdtemp(prefix='seedeval-run-', dir='/tmp')
    results = {}
    try:
        mrepo = os.path.join(work, 'repo')
        shutil.copytree(REPO, mrepo, ignore=shutil.ignore_patterns('.git', '__pycache__', '*.pyc', 'site', 'docs', 'tests'))
        rc, out = sh(f'git apply {os.path.abspath(patch)}', cwd=mrepo)
        if rc:
            meta['error'] = 'patch does not apply to the working tree of /repo: ' + out[-300:]
            print(meta['error'])
            return finish(name, patch, demo, meta, ok=False)
        env = dict(os.environ, WCVERIF_REPO=mrepo, WCVERIF_OUT=os.path.join(work, 'out'))
        for c in checks:
            t0 = time.time()
            rc, out = sh(f'./check {c} --tier {tier}', cwd=VERIF, env=env, timeout=7200)
            sigs = [ln.strip() for ln in out.splitlines() if ln.strip().startswith('signature:')]
            results[c] = {'exit': rc, 'violation_lines': out.count('\nVIOLATION') + (1 if out.startswith('VIOLATION') else 0),
                          'signatures': sigs[:4], 'wall_s': round(time.time() - t0, 1)}
            print(f'  {c} ({tier}): exit={rc} {sigs[:2]}')
    finally:
        shutil.rmtree(work, ignore_errors=True)
    meta['checks_run'] = {'tier': tier, 'results': results}
    meta['caught_by'] = sorted(c for c, r in results.items() if r['exit'] == 1)
    return finish(name, patch, demo, meta, ok=True)


def finish(name, patch, demo, meta, ok):
    d = os.path.join(VERIF, 'seeded', name)
    os.makedirs(d, exist_ok=True)
    for src, dst in ((patch, os.path.join(d, 'patch.diff')), (demo, os.path.join(d, 'demo.py'))):
        if os.path.abspath(src) != os.path.abspath(dst):
            shutil.copy(src, dst)
    old = {}
    mp = os.path.join(d, 'meta.json')
    if os.path.exists(mp):
        try:
            old = json.load(open(mp))
        except ValueError:
            old = {}
    if 'checks_run' in old and 'checks_run' in meta:
        hist = old.get('history', [])
        hist.append(old['checks_run'])
        meta['history'] = hist[-5:]
    if 'checks_run' in meta or 'first_caught_by' in old:
        meta['first_caught_by'] = old.get('first_caught_by', meta.get('caught_by', []))
    if not meta.get('needs_to_manifest') and old.get('needs_to_manifest'):
        meta['needs_to_manifest'] = old['needs_to_manifest']
    with open(mp, 'w') as f:
        json.dump(meta, f, indent=1)
        f.write('\n')
    print('wrote', mp, 'caught_by=', meta.get('caught_by'))
    return 0 if ok else 1


if __name__ == '__main__':
    sys.exit(main())
