#!/venv/bin/python
"""Re-run the quick tier of the owning check against every seeded change (or those matching a substring), on scratch copies.

usage: tools/seedsweep.py [substring] [--jobs N] [--tier quick] [--no-update]

/repo and /verif/evidence are not touched: each change is applied to a scratch copy of /repo's working tree (WCVERIF_REPO) and the
check writes its evidence / replay files into a scratch directory (WCVERIF_OUT). meta.json of each change gets the new result.
Exit 0 iff every change is reported (exit 1 of the check) by its property's check.
"""
import concurrent.futures
import glob
import json
import os
import shutil
import subprocess
import sys
import tempfile
import time

VERIF = os.path.dirname(os.path.dirname(os.path.abspath(__file__)))
REPO = '/repo'


def one(d, tier, shards):
    meta = json.load(open(os.path.join(d, 'meta.json')))
    prop = meta['property']
    work = tempfile.mkdtemp(prefix='seedsweep-', dir='/tmp')
    try:
        mrepo = os.path.join(work, 'repo')
        shutil.copytree(REPO, mrepo, ignore=shutil.ignore_patterns('.git', '__pycache__', '*.pyc', 'site', 'docs', 'tests'))
        r = subprocess.run(['git', 'apply', os.path.join(d, 'patch.diff')], cwd=mrepo, capture_output=True)
        if r.returncode:
            return d, prop, None, 'patch does not apply: ' + r.stderr.decode()[-200:], 0
        env = dict(os.environ, WCVERIF_REPO=mrepo, WCVERIF_OUT=os.path.join(work, 'out'), VERIF_SHARDS=str(shards))
        t0 = time.time()
        # a change may be visible to the check of a neighbouring property only (recorded by hand as "sweep_checks" in meta.json)
        rc, sigs, used = None, [], prop
        for c in meta.get('sweep_checks', [prop]):
            r = subprocess.run(['./check', c, '--tier', tier], cwd=VERIF, env=env, capture_output=True, timeout=7200)
            out = (r.stdout + r.stderr).decode('utf-8', 'replace')
            sigs = [ln.strip() for ln in out.splitlines() if ln.strip().startswith('signature:')]
            rc, used = r.returncode, c
            if rc == 1:
                break
        return d, used, rc, sigs[:3], round(time.time() - t0, 1)
    finally:
        shutil.rmtree(work, ignore_errors=True)


def main():
    args = sys.argv[1:]
    sub, jobs, tier, update = '', 3, 'quick', True
    i = 0
    while i < len(args):
        if args[i] == '--jobs':
            jobs = int(args[i + 1]); i += 2
        elif args[i] == '--tier':
            tier = args[i + 1]; i += 2
        elif args[i] == '--no-update':
            update = False; i += 1
        else:
            sub = args[i]; i += 1
    dirs = sorted(d for d in glob.glob(os.path.join(VERIF, 'seeded', '*')) if sub in os.path.basename(d) and os.path.exists(os.path.join(d, 'meta.json')))
    skipped = [d for d in dirs if json.load(open(os.path.join(d, 'meta.json'))).get('out_of_scope')]
    for d in skipped:
        print(f'{os.path.basename(d):70s} out of scope (see note in meta.json), not run')
    dirs = [d for d in dirs if d not in skipped]
    shards = max(4, 16 // jobs)
    missed = []
    with concurrent.futures.ThreadPoolExecutor(jobs) as ex:
        for d, prop, rc, sigs, wall in ex.map(lambda d: one(d, tier, shards), dirs):
            name = os.path.basename(d)
            print(f'{name:70s} {prop} exit={rc} {wall}s {sigs[:1] if isinstance(sigs, list) else sigs}', flush=True)
            if rc != 1:
                missed.append(name)
            if update and rc is not None:
                mp = os.path.join(d, 'meta.json')
                meta = json.load(open(mp))
                if 'checks_run' in meta:
                    meta.setdefault('history', []).append(meta['checks_run'])
                    meta['history'] = meta['history'][-5:]
                res = dict(meta.get('checks_run', {}).get('results', {})) if meta.get('checks_run', {}).get('tier') == tier else {}
                res[prop] = {'exit': rc, 'violation_lines': len(sigs), 'signatures': sigs, 'wall_s': wall}
                meta['checks_run'] = {'tier': tier, 'results': res, 'when': time.strftime('%Y-%m-%d %H:%M:%S')}
                meta['caught_by'] = sorted(c for c, r in res.items() if r['exit'] == 1)
                with open(mp, 'w') as f:
                    json.dump(meta, f, indent=1)
                    f.write('\n')
    print(f'{len(dirs)} seeded changes, {len(dirs) - len(missed)} reported by their check, missed: {missed}')
    return 1 if missed else 0


if __name__ == '__main__':
    sys.exit(main())
